import CfrVerif.Proofs.CompileWF
import CfrVerif.Proofs.ViewBridge
/-!
# Helper lemmas for `RawSem`: growth of all builder tables, what the registration steps return,
look-ups in tables with distinct keys
-/
set_option linter.unusedSectionVars false
namespace Cfr
variable {α : Type}

/-! ## lists -/

theorem prefix_mem {β : Type} {l l' : List β} (h : l <+: l') {x : β} (hx : x ∈ l) : x ∈ l' := by
  obtain ⟨t, rfl⟩ := h
  exact List.mem_append_left _ hx

/-- in a list with distinct keys, looking a key up returns the position of its entry -/
theorem findIdx?_of_nodup {β γ : Type} [DecidableEq γ] (f : β → γ) :
    ∀ (l : List β) (i : Nat) (e : β), (l.map f).Nodup → l[i]? = some e →
      l.findIdx? (fun x => f x == f e) = some i
  | [], i, e, _, h => by simp at h
  | x :: l, 0, e, _, h => by
    simp only [List.getElem?_cons_zero, Option.some.injEq] at h
    subst h
    simp [List.findIdx?_cons]
  | x :: l, i + 1, e, hn, h => by
    simp only [List.getElem?_cons_succ] at h
    simp only [List.map_cons, List.nodup_cons] at hn
    have hne : f x ≠ f e := by
      intro he
      exact hn.1 (he ▸ List.mem_map.mpr ⟨e, List.mem_of_getElem? h, rfl⟩)
    have := findIdx?_of_nodup f l i e hn.2 h
    simp [List.findIdx?_cons, hne, this]

theorem findIdx?_self_of_nodup (l : List Nat) (k : Nat) (hk : k < l.length) (hn : l.Nodup) :
    l.findIdx? (fun b => b == l[k]) = some k := by
  have := findIdx?_of_nodup (fun x : Nat => x) l k l[k] (by simpa using hn) (by simp [hk])
  simpa using this

/-! ## all three tables only grow -/

structure GrowsAll (s s' : BState α) : Prop where
  chance : s.chance <+: s'.chance
  infos : ∀ one, s.infos one <+: s'.infos one
  singles : ∀ one, s.singles one <+: s'.singles one

theorem GrowsAll.refl (s : BState α) : GrowsAll s s :=
  ⟨List.prefix_refl _, fun _ => List.prefix_refl _, fun _ => List.prefix_refl _⟩
theorem GrowsAll.trans {s s' s'' : BState α} (h : GrowsAll s s') (h' : GrowsAll s' s'') : GrowsAll s s'' :=
  ⟨h.chance.trans h'.chance, fun one => (h.infos one).trans (h'.infos one),
    fun one => (h.singles one).trans (h'.singles one)⟩

section
variable [Field α] [LinearOrder α] [IsStrictOrderedRing α]

theorem registerSingle_spec {one : Bool} {info a : Nat} {s s' : BState α}
    (h : registerSingle one info a s = .ok s') :
    GrowsAll s s' ∧ (info, a) ∈ s'.singles one ∧ ∀ me, s'.infos me = s.infos me := by
  unfold registerSingle at h
  split_ifs at h with hany
  split at h
  · rename_i e hf
    split_ifs at h with hne
    cases h
    refine ⟨GrowsAll.refl _, ?_, fun _ => rfl⟩
    have h1 := List.find?_some hf
    have h2 := List.mem_of_find?_eq_some hf
    have e1 : e.1 = info := by simpa using h1
    have e2 : e.2 = a := by simpa using hne
    have : e = (info, a) := by rw [← e1, ← e2]
    rw [← this]; exact h2
  · cases h
    refine ⟨⟨by simp, fun me => by simp, fun me => ?_⟩, by simp, fun me => by simp⟩
    by_cases hm : one = me
    · subst hm; simp
    · simp [hm]

theorem registerPlayer_spec {one : Bool} {info : Nat} {acts : List Nat} {prev : Prev}
    {s s' : BState α} {i : Nat} (h : registerPlayer one info acts prev s = .ok (i, s')) :
    GrowsAll s s' ∧ (∃ e, (s'.infos one)[i]? = some e ∧ e.label = info ∧ e.actions = acts) ∧
      ∀ me, ∀ e ∈ s'.infos me, e ∈ s.infos me ∨ (me = one ∧ e.label = info ∧ e.actions = acts) := by
  unfold registerPlayer at h
  split at h
  · rename_i j hf
    split at h
    · rename_i e he
      split_ifs at h with h3 h4
      cases h
      refine ⟨GrowsAll.refl _, ⟨e, he, ?_, by simpa using h3⟩, fun me e he => Or.inl he⟩
      obtain ⟨hj, hp, _⟩ := List.findIdx?_eq_some_iff_getElem.mp hf
      have : (s.infos one)[i] = e := by
        have := List.getElem?_eq_getElem hj
        rw [he] at this
        exact (Option.some.inj this).symm
      rw [this] at hp
      simpa using hp
    · cases h
  · split_ifs at h with h3 h4
    cases h
    refine ⟨⟨by simp, fun me => ?_, fun me => by simp⟩, ⟨⟨info, acts, prev.get one⟩, by simp, rfl, rfl⟩,
      fun me e he => ?_⟩
    · by_cases hm : one = me
      · subst hm; simp
      · simp [hm]
    · by_cases hm : one = me
      · subst hm
        simp only [BState.infos_setInfos, if_true, List.mem_append, List.mem_singleton] at he
        rcases he with he | he
        · exact Or.inl he
        · subst he; exact Or.inr ⟨rfl, rfl, rfl⟩
      · simp only [BState.infos_setInfos, hm, if_false] at he
        exact Or.inl he

theorem GrowsAll.addChance (s : BState α) (x : Option Nat × List α) :
    GrowsAll s ({ s with chance := s.chance ++ [x] } : BState α) :=
  ⟨by simp, fun me => by simp, fun me => by simp⟩

theorem registerChance_spec {info : Option Nat} {probs : List α} {nodes : List (Node α)}
    {s s' : BState α} {n : Node α} (h : registerChance info probs nodes s = .ok (n, s')) :
    GrowsAll s s' ∧ (∀ me, s'.infos me = s.infos me) ∧
      ((nodes = [n]) ∨ (2 ≤ nodes.length ∧ ∃ i x, n = .chance i nodes ∧
        s'.chance[i]? = some (x, probs.map (· / lsum probs)))) := by
  unfold registerChance at h
  split at h
  · cases h
  · rename_i k
    split at h
    · cases h
      exact ⟨GrowsAll.refl _, fun _ => rfl, Or.inl rfl⟩
    · split at h
      · split_ifs at h
        cases h
        exact ⟨GrowsAll.refl _, fun _ => rfl, Or.inl rfl⟩
      · cases h
        exact ⟨GrowsAll.addChance _ _, fun me => by simp, Or.inl rfl⟩
  · rename_i h0 h1
    have h2 : 2 ≤ nodes.length := two_le_length_of (fun e => h0 e) (fun k e => h1 k e)
    dsimp only at h
    split at h
    · cases h
      exact ⟨GrowsAll.addChance _ _, fun me => by simp, Or.inr ⟨h2, _, none, rfl, by simp⟩⟩
    · rename_i l
      split at h
      · rename_i i _
        split_ifs at h with he
        cases h
        refine ⟨GrowsAll.refl _, fun _ => rfl, Or.inr ⟨h2, i, some l, rfl, ?_⟩⟩
        have he' : (s.chance[i]?.map (·.2)) = some (probs.map (· / lsum probs)) := by
          simpa using he
        rename_i hfi
        obtain ⟨hj, hp, _⟩ := List.findIdx?_eq_some_iff_getElem.mp hfi
        rw [List.getElem?_eq_getElem hj] at he' ⊢
        simp only [Option.map_some, Option.some.injEq] at he'
        have h1' : (s.chance[i]).1 = some l := by simpa using hp
        rw [← he', ← h1']
      · cases h
        exact ⟨GrowsAll.addChance _ _, fun me => by simp, Or.inr ⟨h2, _, some l, rfl, by simp⟩⟩

@[simp] theorem BState.game_singles (s : BState α) (r : Node α) (one : Bool) :
    (s.game r).singles one = s.singles one := by cases one <;> rfl

theorem BInv.empty : BInv ({} : BState α) := by
  have hi0 : ∀ one, ({} : BState α).infos one = [] := fun one => by cases one <;> rfl
  have hs0 : ∀ one, ({} : BState α).singles one = [] := fun one => by cases one <;> rfl
  refine ⟨?_, ?_, ?_, ?_⟩
  · intro one; rw [hi0, hs0]; exact ⟨by simp, by simp, by simp, by simp⟩
  · intro one e he; rw [hi0] at he; simp at he
  · intro one i e he; rw [hi0] at he; simp at he
  · intro e he; exact absurd he (by simp)

theorem PrevOK.empty : PrevOK ({} : Prev) ({} : BState α) := by
  intro one j a hj
  have hp0 : ∀ one, ({} : Prev).get one = none := fun one => by cases one <;> rfl
  rw [hp0] at hj; cases hj

end

end Cfr
