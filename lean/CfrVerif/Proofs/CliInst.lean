import CfrVerif.Model.Cli
import CfrVerif.Proofs.Basic
import CfrVerif.Proofs.RealInst
/-!
# `Model/Cli.lean` at ordered fields

No theorems yet: this file only shows that the command-line model, written against the core
notation classes, instantiates at an ordered field (generic, `ℚ` by evaluation, `ℝ` with the
transcendental functions), and evaluates the Gambit conversion on tiny files.
-/
namespace Cfr

/-! ## the whole program type-checks at an ordered field -/

section
variable {α : Type} [Field α] [LinearOrder α] [IsStrictOrderedRing α] [Transc α]

example : (Nat → Nat) → EfgFile α → Except CliError (Raw α × α) := gambitRaw
example : (Nat → Nat) → EfgFile α → Except CliError (Game α × α) := gambitFromAst
example : JState α → Except CliError (Game α × α) := jsonFromState
example : (Nat → Nat) → InputFormat → InputKind → Parsed α → Except CliError (Game α × α) := loadGame
example : Game α → α → α → Strat α → Strat α → Except CliError (CliOut α) := report
example : Env → Sched α → DrawFn α → (Nat → Nat) → CliOpts α → InputFormat → InputKind → Parsed α →
    Except CliError (CliOut α) := cliMain
end

noncomputable example : Env → Sched ℝ → DrawFn ℝ → (Nat → Nat) → CliOpts ℝ → InputFormat →
    InputKind → Parsed ℝ → Except CliError (CliOut ℝ) := cliMain

/-! ## evaluation at `ℚ` -/

mutual
/-- the terminal payoffs of a raw tree, left to right -/
def Raw.pays {α} : Raw α → List α
  | .term p => [p]
  | .chance _ _ ks => Raw.paysL ks
  | .player _ _ _ ks => Raw.paysL ks
def Raw.paysL {α} : List (Raw α) → List α
  | [] => []
  | k :: ks => Raw.pays k ++ Raw.paysL ks
end

mutual
/-- the labels of a raw tree in pre-order: `(player, infoset, actions)` -/
def Raw.shape {α} : Raw α → List (Nat × Nat × List Nat)
  | .term _ => []
  | .chance i _ ks => (0, i.getD 0, []) :: Raw.shapeL ks
  | .player one i as ks => ((if one then 1 else 2), i, as) :: Raw.shapeL ks
def Raw.shapeL {α} : List (Raw α) → List (Nat × Nat × List Nat)
  | [] => []
  | k :: ks => Raw.shape k ++ Raw.shapeL ks
end

/-- offset and terminal payoffs of the converted game, or the error -/
def convSummary (numName : Nat → Nat) (f : EfgFile ℚ) : Except CliError (ℚ × List ℚ) :=
  match gambitRaw numName f with
  | .error e => .error e
  | .ok (raw, sum) => .ok (sum, raw.pays)

def okOf {ε β : Type} : Except ε β → Option β | .ok b => some b | .error _ => none
def errOf {ε β : Type} : Except ε β → Option ε | .ok _ => none | .error e => some e

/-- the crate's own test `EFG 2 R "" { "" "" } t "" 2 { 1 1 }` : the offset is `1`, the zero-sum
payoff `0` -/
example : okOf (convSummary id ⟨2, .term 2 [1, 1]⟩) = some (1, [0]) := by decide +kernel

/-- three players -/
example : errOf (convSummary id ⟨3, .term 2 [1, 1, 1]⟩) = some .playerCount := by decide +kernel

/-- A constant-sum (10) file.  Strings and their labels (byte order):
`"1"`=0 `"2"`=1 `"L"`=2 `"R"`=3 `"l"`=4 `"r"`=5 `"x"`=6 `"y"`=7 `"z"`=8.
```
p "" 1 1 "x" { "R" "L" } 0
p "" 2 2 "z" { "l" "r" } 3            -- outcome 3 by number only
t "" 2 "b" { 2 3 }
t "" 4 "c" { 6 -1 }
p "" 2 1 "y" { "l" } 3 "bonus" { 2 3 }
t "" 1 "a" { 1 4 }
```
The actions of the root are listed as `R`, `L` and come out sorted. -/
def demoFile : EfgFile ℚ :=
  ⟨2, .player 1 1 (some 6) [3, 2]
    [ .player 2 2 (some 8) [4, 5] [.term 2 [2, 3], .term 4 [6, -1]] 3 none,
      .player 2 1 (some 7) [4] [.term 1 [1, 4]] 3 (some [2, 3]) ] 0 none⟩

def demoNumName : Nat → Nat | 1 => 0 | 2 => 1 | n => 100 + n

/-- pair sums are all `10`, so the offset is `5`; player one's payoffs `3, 4, 8` (interior outcome
`3` pays `2` on every path) become `-2, -1, 3`, with `L` before `R` -/
example : okOf (convSummary demoNumName demoFile) = some (5, [-2, -1, 3]) := by decide +kernel

/-- infoset labels are the given names, actions are sorted -/
example : (okOf (gambitRaw demoNumName demoFile)).map (fun r => r.1.shape) =
    some [(1, 6, [2, 3]), (2, 7, [4]), (2, 8, [4, 5])] := by decide +kernel

/-- the pop order of the two loops of `get_global_info`: last child first -/
example : (demoFile.root.visits.map fun
    | .term oc _ => oc | .chance oc _ => 100 + oc | .player _ i _ _ _ => 200 + i) =
    [201, 201, 1, 202, 4, 2] := by decide +kernel

/-- a unnamed infoset `2` of player two next to an infoset named `"2"` : the documented clash -/
example : errOf (convSummary demoNumName
    ⟨2, .player 2 1 (some 1) [4, 5]
      [.player 2 2 none [4, 5] [.term 1 [0, 0], .term 1 [0, 0]] 0 none, .term 1 [0, 0]] 0 none⟩)
    = some .numberNameClash := by decide +kernel

/-- two infosets of one player with one name -/
example : errOf (convSummary demoNumName
    ⟨2, .player 1 1 (some 6) [4, 5]
      [.player 1 2 (some 6) [4, 5] [.term 1 [0, 0], .term 1 [0, 0]] 0 none, .term 1 [0, 0]] 0 none⟩)
    = some .duplicateInfosetName := by decide +kernel

/-- pair sums `0` and `2` over a payoff range of `1` for player one: not constant sum -/
example : errOf (convSummary id
    ⟨2, .chance 1 [0, 1] [1/2, 1/2] [.term 1 [0, 0], .term 2 [1, 1]] 0 none⟩)
    = some .notConstantSum := by decide +kernel

/-- … and inside the 0.1 % tolerance: pair sums `0` and `1/1000` over a range of `1` -/
example : okOf (convSummary id
    ⟨2, .chance 1 [0, 1] [1/2, 1/2] [.term 1 [0, 0], .term 2 [1, -999/1000]] 0 none⟩)
    = some (1/4000, [-1/4000, 3999/4000]) := by decide +kernel

/-- the JSON DSL: map entries come out in key order -/
example : (JState.toRaw (α := ℚ) (.player true 7 [5, 3] [.terminal 1, .terminal 2])).shape
    = [(1, 7, [3, 5])] ∧
    (JState.toRaw (α := ℚ) (.player true 7 [5, 3] [.terminal 1, .terminal 2])).pays = [2, 1] := by
  decide +kernel

end Cfr
