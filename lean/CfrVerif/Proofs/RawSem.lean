import CfrVerif.Proofs.CompileWF
import CfrVerif.Proofs.ViewBridge
/-!
# What a game tree means, independently of its compiled form

`rawEV ρ r` is the expected payoff of player one on the *input* tree `r` (the game as the caller
wrote it: labels, unnormalised chance weights, degenerate nodes and all) under a labelled
profile `ρ : player → infoset label → action label → probability`.  `compile_expected` says that
`Game::from_root` preserves this meaning: evaluating the compiled game under an indexed profile
`σ` equals evaluating the input tree under the labelled reading of `σ` (single-action infosets
play their only action).
-/
set_option linter.unusedSectionVars false
namespace Cfr
variable {α : Type} [Field α] [LinearOrder α] [IsStrictOrderedRing α]

/-- a labelled profile: the probability with which player `o` plays action label `a` at the
infoset labelled `l` -/
abbrev LProfile (α : Type) := Bool → Nat → Nat → α

mutual
/-- expected payoff of player one on the input tree -/
def rawEV (ρ : LProfile α) : Raw α → α
  | .term p => p
  | .chance _ ws ks => rawEVC ρ ws.sum ws ks
  | .player o l as ks => rawEVP ρ o l as ks
/-- chance children: outcome `i` has probability `w_i / total` -/
def rawEVC (ρ : LProfile α) (total : α) : List α → List (Raw α) → α
  | w :: ws, k :: ks => w / total * rawEV ρ k + rawEVC ρ total ws ks
  | _, _ => 0
/-- decision children: action `a_i` has probability `ρ o l a_i` -/
def rawEVP (ρ : LProfile α) (o : Bool) (l : Nat) : List Nat → List (Raw α) → α
  | a :: as, k :: ks => ρ o l a * rawEV ρ k + rawEVP ρ o l as ks
  | _, _ => 0
end

/-- the labelled reading of an indexed profile on a compiled game: a multi-action infoset plays
its vector, a single-action infoset its only action, anything else nothing -/
def Game.labelled (g : Game α) (σ : Bool → Strat α) : LProfile α := fun o l a =>
  match (g.infos o).findIdx? (fun e => e.label == l) with
  | some i =>
    match ((g.infos o).getD i default).actions.findIdx? (fun b => b == a) with
    | some k => ((σ o).at i).getD k 0
    | none => 0
  | none => if (g.singles o).any (fun e => e.1 == l && e.2 == a) then 1 else 0

/-- **`from_root` preserves the meaning of the tree**: the expected payoff computed on the compiled
game equals the expected payoff of the input tree under the labelled reading of the profile -/
theorem compile_expected (r : Raw α) (hs : Raw.Shape r) (g : Game α) (h : fromRoot r = .ok g)
    (σ : Bool → Strat α) (hσ : ∀ me : Bool, IsStrat (σ me) ∧ FitsGame g me (σ me)) :
    expected g.chance σ g.root = rawEV (g.labelled σ) r := by
  sorry

mutual
/-- `ρ` is a behavioural strategy profile on the input tree: at every decision node the
probabilities of the listed actions are non-negative and sum to one -/
def LValidOn (ρ : LProfile α) : Raw α → Prop
  | .term _ => True
  | .chance _ _ ks => LValidOnL ρ ks
  | .player o l as ks => (∀ a ∈ as, 0 ≤ ρ o l a) ∧ (as.map (ρ o l)).sum = 1 ∧ LValidOnL ρ ks
def LValidOnL (ρ : LProfile α) : List (Raw α) → Prop
  | [] => True
  | k :: ks => LValidOn ρ k ∧ LValidOnL ρ ks
end

/-- the labelled reading of a valid indexed profile is a behavioural profile on the input tree -/
theorem labelled_valid (r : Raw α) (hs : Raw.Shape r) (g : Game α) (h : fromRoot r = .ok g)
    (σ : Bool → Strat α) (hσ : ∀ me : Bool, IsStrat (σ me) ∧ FitsGame g me (σ me)) :
    LValidOn (g.labelled σ) r := by
  sorry

/-- the indexed profile that plays a labelled profile -/
def Game.indexedOf (g : Game α) (ρ : LProfile α) : Bool → Strat α :=
  fun o => (g.infos o).map (fun e => e.actions.map (ρ o e.label))

/-- conversely every behavioural profile on the input tree is played by a valid indexed profile
of the compiled game with the same expected payoff — so maximising over indexed strategies
(C01) is maximising over all behavioural strategies of the game as written -/
theorem indexedOf_valid (r : Raw α) (hs : Raw.Shape r) (g : Game α) (h : fromRoot r = .ok g)
    (ρ : LProfile α) (hρ : LValidOn ρ r) :
    (∀ me : Bool, IsStrat (g.indexedOf ρ me) ∧ FitsGame g me (g.indexedOf ρ me)) ∧
    rawEV (g.labelled (g.indexedOf ρ)) r = rawEV ρ r := by
  sorry

end Cfr
