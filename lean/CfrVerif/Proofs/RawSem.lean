import CfrVerif.Proofs.CompileWF
import CfrVerif.Proofs.ViewBridge
import CfrVerif.Proofs.RawSemLemmas
/-!
# What a game tree means, independently of its compiled form

`rawEV ρ r` is the expected payoff of player one on the *input* tree `r` (the game as the caller
wrote it: labels, unnormalised chance weights, degenerate nodes and all) under a labelled
profile `ρ : player → infoset label → action label → probability`.  `compile_expected` says that
`Game::from_root` preserves this meaning: evaluating the compiled game under an indexed profile
`σ` equals evaluating the input tree under the labelled reading of `σ` (single-action infosets
play their only action).
-/
set_option linter.unusedSectionVars false
namespace Cfr
variable {α : Type} [Field α] [LinearOrder α] [IsStrictOrderedRing α]

/-- a labelled profile: the probability with which player `o` plays action label `a` at the
infoset labelled `l` -/
abbrev LProfile (α : Type) := Bool → Nat → Nat → α

mutual
/-- expected payoff of player one on the input tree -/
def rawEV (ρ : LProfile α) : Raw α → α
  | .term p => p
  | .chance _ ws ks => rawEVC ρ ws.sum ws ks
  | .player o l as ks => rawEVP ρ o l as ks
/-- chance children: outcome `i` has probability `w_i / total` -/
def rawEVC (ρ : LProfile α) (total : α) : List α → List (Raw α) → α
  | w :: ws, k :: ks => w / total * rawEV ρ k + rawEVC ρ total ws ks
  | _, _ => 0
/-- decision children: action `a_i` has probability `ρ o l a_i` -/
def rawEVP (ρ : LProfile α) (o : Bool) (l : Nat) : List Nat → List (Raw α) → α
  | a :: as, k :: ks => ρ o l a * rawEV ρ k + rawEVP ρ o l as ks
  | _, _ => 0
end

/-- the labelled reading of an indexed profile on a compiled game: a multi-action infoset plays
its vector, a single-action infoset its only action, anything else nothing -/
def Game.labelled (g : Game α) (σ : Bool → Strat α) : LProfile α := fun o l a =>
  match (g.infos o).findIdx? (fun e => e.label == l) with
  | some i =>
    match ((g.infos o).getD i default).actions.findIdx? (fun b => b == a) with
    | some k => ((σ o).at i).getD k 0
    | none => 0
  | none => if (g.singles o).any (fun e => e.1 == l && e.2 == a) then 1 else 0


/-! ## the labelled reading on registered infosets -/

theorem labelled_single (g : Game α) (σ : Bool → Strat α) (o : Bool) (l a : Nat)
    (htw : TablesWF (g.infos o) (g.singles o)) (hm : (l, a) ∈ g.singles o) :
    g.labelled σ o l a = 1 := by
  have hnone : (g.infos o).findIdx? (fun e => e.label == l) = none := by
    rw [List.findIdx?_eq_none_iff]
    intro e he
    have hd := htw.disjoint e.label (List.mem_map.mpr ⟨e, he, rfl⟩)
    simp only [beq_eq_false_iff_ne, ne_eq]
    intro hl
    apply hd
    rw [hl]
    exact List.mem_map.mpr ⟨(l, a), hm, rfl⟩
  unfold Game.labelled
  rw [hnone]
  simp only
  rw [if_pos]
  exact List.any_eq_true.mpr ⟨(l, a), hm, by simp⟩

theorem labelled_at (g : Game α) (σ : Bool → Strat α) (o : Bool) (i : Nat) (e : PInfo)
    (htw : TablesWF (g.infos o) (g.singles o)) (he : (g.infos o)[i]? = some e)
    (k : Nat) (hk : k < e.actions.length) :
    g.labelled σ o e.label e.actions[k] = ((σ o).at i).getD k 0 := by
  unfold Game.labelled
  rw [findIdx?_of_nodup (·.label) _ i e htw.labelsNodup he]
  simp only
  have hget : (g.infos o).getD i default = e := by simp [List.getD_eq_getElem?_getD, he]
  rw [hget, findIdx?_self_of_nodup e.actions k hk (htw.actionsNodup e (List.mem_of_getElem? he))]

theorem labelled_multi (g : Game α) (σ : Bool → Strat α) (o : Bool) (i : Nat) (e : PInfo)
    (htw : TablesWF (g.infos o) (g.singles o)) (he : (g.infos o)[i]? = some e)
    (hfit : FitsGame g o (σ o)) :
    e.actions.map (g.labelled σ o e.label) = (σ o).at i := by
  obtain ⟨v, hv, hvl⟩ := fits_at g o (σ o) hfit i e he
  have e' : (σ o).at i = v := by simp [Strat.at, List.getD_eq_getElem?_getD, hv]
  apply List.ext_getElem (by simp [e', hvl])
  intro k h1 h2
  have hk : k < e.actions.length := by simpa using h1
  rw [List.getElem_map, labelled_at g σ o i e htw he k hk]
  simp [List.getD_eq_getElem?_getD, h2]

/-! ## the tree is registered in the tables -/

mutual
/-- every decision node of the tree has its infoset in the tables `sf`: a single-action node in the
singles table, a multi-action node in the infoset table with exactly its actions -/
def Reg (sf : BState α) : Raw α → Prop
  | .term _ => True
  | .chance _ _ ks => RegL sf ks
  | .player o l as ks =>
    ((∃ a, as = [a] ∧ (l, a) ∈ sf.singles o) ∨
      (∃ (i : Nat) (e : PInfo), (sf.infos o)[i]? = some e ∧ e.label = l ∧ e.actions = as)) ∧ RegL sf ks
def RegL (sf : BState α) : List (Raw α) → Prop
  | [] => True
  | k :: ks => Reg sf k ∧ RegL sf ks
end

/-- a valid profile of the game read off the tables `sf` -/
def Good (sf : BState α) (σ : Bool → Strat α) : Prop :=
  ∀ me : Bool, IsStrat (σ me) ∧ FitsGame (G sf) me (σ me)

mutual
theorem compile_sem : ∀ (r : Raw α) (prev : Prev) (s s' : BState α) (n : Node α),
    Raw.Shape r → compile r prev s = .ok (n, s') →
    GrowsAll s s' ∧ ∀ sf, GrowsAll s' sf → (∀ o, TablesWF (sf.infos o) (sf.singles o)) →
      Reg sf r ∧ ∀ σ, Good sf σ →
        expected (G sf).chance σ n = rawEV ((G sf).labelled σ) r
  | .term pay, prev, s, s', n, _, h => by
    simp only [compile] at h
    split_ifs at h
    cases h
    exact ⟨GrowsAll.refl _, fun sf _ _ => ⟨by simp [Reg], fun σ _ => by simp [expected, rawEV]⟩⟩
  | .chance info ws kids, prev, s, s', n, hs, h => by
    simp only [compile] at h
    split at h
    · cases h
    · rename_i probs nodes s1 hco
      simp only [Raw.Shape] at hs
      obtain ⟨hg1, hps, hlen, hpos, ih⟩ :=
        compileOutcomes_sem ws kids prev s s1 probs nodes hs.1 hs.2 hco
      subst hps
      obtain ⟨hg2, _, hcase⟩ := registerChance_spec h
      refine ⟨hg1.trans hg2, fun sf hgf htw => ?_⟩
      obtain ⟨hreg, hev⟩ := ih sf (hg2.trans hgf) htw
      refine ⟨by simpa only [Reg] using hreg, fun σ hσ => ?_⟩
      have key := hev σ hσ probs.sum
      simp only [rawEV]
      rw [← key]
      rcases hcase with hone | ⟨h2, i, x, rfl, hi⟩
      · subst hone
        have hl1 : probs.length = 1 := by rw [hs.1, ← hlen]; rfl
        obtain ⟨w, rfl⟩ := List.length_eq_one_iff.mp hl1
        have hw : (0 : α) < w := hpos w (by simp)
        simp [expectedL, div_self (ne_of_gt hw)]
      · have hi' : sf.chance[i]? = some (x, probs.map (· / lsum probs)) :=
          prefix_getElem? hgf.chance hi
        simp only [expected]
        congr 1
        simp [G, List.getD_eq_getElem?_getD, List.getElem?_map, hi', lsum_eq_sum]
  | .player one info [] kids, prev, s, s', n, hs, h => by
    simp [compile] at h
  | .player one info (a :: as) [], prev, s, s', n, hs, h => by
    simp [compile] at h
  | .player one info [a] (k :: ks), prev, s, s', n, hs, h => by
    simp only [compile] at h
    split at h
    · cases h
    · rename_i s1 hr
      simp only [Raw.Shape, Raw.ShapeL] at hs
      obtain ⟨hg1, hmem, _⟩ := registerSingle_spec hr
      obtain ⟨hg2, ih⟩ := compile_sem k prev s1 s' n hs.2.1 h
      have hks : ks = [] := by
        have := hs.1
        simp only [List.length_cons, List.length_nil] at this
        exact List.eq_nil_of_length_eq_zero (by omega)
      subst hks
      refine ⟨hg1.trans hg2, fun sf hgf htw => ?_⟩
      obtain ⟨hreg, hev⟩ := ih sf hgf htw
      have hm' : (info, a) ∈ sf.singles one := prefix_mem ((hg2.trans hgf).singles one) hmem
      refine ⟨?_, fun σ hσ => ?_⟩
      · simp only [Reg, RegL]
        exact ⟨Or.inl ⟨a, rfl, hm'⟩, hreg, trivial⟩
      · rw [hev σ hσ]
        simp only [rawEV, rawEVP]
        rw [labelled_single (G sf) σ one info a (by simpa using htw one) (by simpa using hm')]
        ring
  | .player one info (a :: b :: as) (k :: ks), prev, s, s', n, hs, h => by
    simp only [compile] at h
    split at h
    · cases h
    · rename_i i s1 hr
      split at h
      · cases h
      · rename_i nodes s2 hco
        simp only [Except.ok.injEq, Prod.mk.injEq] at h
        obtain ⟨rfl, rfl⟩ := h
        simp only [Raw.Shape] at hs
        obtain ⟨hg1, ⟨e, he, hel, hea⟩, _⟩ := registerPlayer_spec hr
        obtain ⟨hg2, ih⟩ := compileActions_sem (k :: ks) one i 0 prev s1 s2 nodes hs.2 hco
        refine ⟨hg1.trans hg2, fun sf hgf htw => ?_⟩
        obtain ⟨hreg, hev⟩ := ih sf hgf htw
        have he' : (sf.infos one)[i]? = some e := prefix_getElem? ((hg2.trans hgf).infos one) he
        refine ⟨?_, fun σ hσ => ?_⟩
        · simp only [Reg]
          exact ⟨Or.inr ⟨i, e, he', hel, hea⟩, hreg⟩
        · have hm := labelled_multi (G sf) σ one i e (by simpa using htw one) (by simpa using he')
            (hσ one).2
          rw [hel, hea] at hm
          simp only [expected, rawEV]
          rw [← hm]
          apply hev σ hσ one info _ hs.1
          intro x hx
          apply isStrat_at_nonneg (σ one) (hσ one).1 i
          rw [← hm]
          exact List.mem_map.mpr ⟨x, hx, rfl⟩
theorem compileOutcomes_sem : ∀ (ws : List α) (ks : List (Raw α)) (prev : Prev)
    (s s' : BState α) (ps : List α) (ns : List (Node α)),
    ws.length = ks.length → Raw.ShapeL ks → compileOutcomes ws ks prev s = .ok (ps, ns, s') →
    GrowsAll s s' ∧ ps = ws ∧ ns.length = ks.length ∧ (∀ w ∈ ws, 0 < w) ∧
      ∀ sf, GrowsAll s' sf → (∀ o, TablesWF (sf.infos o) (sf.singles o)) →
        RegL sf ks ∧ ∀ σ, Good sf σ → ∀ t : α,
          expectedL (G sf).chance σ false (ws.map (· / t)) ns =
            rawEVC ((G sf).labelled σ) t ws ks
  | [], [], prev, s, s', ps, ns, _, _, h => by
    simp only [compileOutcomes] at h
    cases h
    exact ⟨GrowsAll.refl _, rfl, rfl, by simp, fun sf _ _ =>
      ⟨by simp [RegL], fun σ _ t => by simp [expectedL, rawEVC]⟩⟩
  | [], _ :: _, prev, s, s', ps, ns, hl, _, h => by simp at hl
  | _ :: _, [], prev, s, s', ps, ns, hl, _, h => by simp at hl
  | w :: ws, k :: ks, prev, s, s', ps, ns, hl, hs, h => by
    simp only [compileOutcomes] at h
    split_ifs at h with hw
    split at h
    · cases h
    · rename_i n s1 hc1
      split at h
      · cases h
      · rename_i ps' ns' s2 hc2
        simp only [Except.ok.injEq, Prod.mk.injEq] at h
        obtain ⟨rfl, rfl, rfl⟩ := h
        simp only [Raw.ShapeL] at hs
        have hw0 : 0 < w := by simpa using hw
        obtain ⟨hg1, ih1⟩ := compile_sem k prev s s1 n hs.1 hc1
        obtain ⟨hg2, hps, hlen, hpos, ih2⟩ :=
          compileOutcomes_sem ws ks prev s1 s2 ps' ns' (by simpa using hl) hs.2 hc2
        subst hps
        refine ⟨hg1.trans hg2, rfl, by simp [hlen], ?_, fun sf hgf htw => ?_⟩
        · intro p hp
          rcases List.mem_cons.mp hp with rfl | hp
          · exact hw0
          · exact hpos p hp
        · obtain ⟨hreg1, hev1⟩ := ih1 sf (hg2.trans hgf) htw
          obtain ⟨hreg2, hev2⟩ := ih2 sf hgf htw
          refine ⟨by simp only [RegL]; exact ⟨hreg1, hreg2⟩, fun σ hσ t => ?_⟩
          simp only [List.map_cons, expectedL, rawEVC, Bool.false_and, Bool.false_eq_true,
            if_false]
          rw [hev1 σ hσ, hev2 σ hσ t]
theorem compileActions_sem : ∀ (ks : List (Raw α)) (one : Bool) (i a : Nat) (prev : Prev)
    (s s' : BState α) (ns : List (Node α)),
    Raw.ShapeL ks → compileActions ks one i a prev s = .ok (ns, s') →
    GrowsAll s s' ∧ ∀ sf, GrowsAll s' sf → (∀ o, TablesWF (sf.infos o) (sf.singles o)) →
      RegL sf ks ∧ ∀ σ, Good sf σ → ∀ (o : Bool) (l : Nat) (as : List Nat),
        as.length = ks.length → (∀ x ∈ as, 0 ≤ (G sf).labelled σ o l x) →
          expectedL (G sf).chance σ true (as.map ((G sf).labelled σ o l)) ns =
            rawEVP ((G sf).labelled σ) o l as ks
  | [], one, i, a, prev, s, s', ns, _, h => by
    simp only [compileActions] at h
    cases h
    refine ⟨GrowsAll.refl _, fun sf _ _ => ⟨by simp [RegL], fun σ _ o l as hl _ => ?_⟩⟩
    have : as = [] := List.eq_nil_of_length_eq_zero (by simpa using hl)
    subst this
    simp [expectedL, rawEVP]
  | k :: ks, one, i, a, prev, s, s', ns, hs, h => by
    simp only [compileActions] at h
    split at h
    · cases h
    · rename_i n s1 hc1
      split at h
      · cases h
      · rename_i ns' s2 hc2
        simp only [Except.ok.injEq, Prod.mk.injEq] at h
        obtain ⟨rfl, rfl⟩ := h
        simp only [Raw.ShapeL] at hs
        obtain ⟨hg1, ih1⟩ := compile_sem k _ s s1 n hs.1 hc1
        obtain ⟨hg2, ih2⟩ := compileActions_sem ks one i (a + 1) prev s1 s2 ns' hs.2 hc2
        refine ⟨hg1.trans hg2, fun sf hgf htw => ?_⟩
        obtain ⟨hreg1, hev1⟩ := ih1 sf (hg2.trans hgf) htw
        obtain ⟨hreg2, hev2⟩ := ih2 sf hgf htw
        refine ⟨by simp only [RegL]; exact ⟨hreg1, hreg2⟩, fun σ hσ o l as hl hnn => ?_⟩
        match as, hl, hnn with
        | [], hl, _ => simp at hl
        | x :: as, hl, hnn =>
          simp only [List.map_cons, expectedL, rawEVP]
          rw [hev1 σ hσ, hev2 σ hσ o l as (by simpa using hl) (fun y hy => hnn y (by simp [hy]))]
          congr 1
          have h0 := hnn x (by simp)
          generalize (G sf).labelled σ o l x = p at h0 ⊢
          by_cases hp : 0 < p
          · simp [hp]
          · have : p = 0 := le_antisymm (not_lt.mp hp) h0
            simp [this]
end

/-- `fromRoot` returns the game read off the final builder state -/
theorem fromRoot_state {r : Raw α} {g : Game α} (h : fromRoot r = .ok g) :
    ∃ root s, compile r {} {} = .ok (root, s) ∧ g = s.game root := by
  unfold fromRoot at h
  split at h
  · cases h
  · rename_i root s hc
    simp only [Except.ok.injEq] at h
    exact ⟨root, s, hc, h.symm⟩

/-- **`from_root` preserves the meaning of the tree**: the expected payoff computed on the compiled
game equals the expected payoff of the input tree under the labelled reading of the profile -/
theorem compile_expected (r : Raw α) (hs : Raw.Shape r) (g : Game α) (h : fromRoot r = .ok g)
    (σ : Bool → Strat α) (hσ : ∀ me : Bool, IsStrat (σ me) ∧ FitsGame g me (σ me)) :
    expected g.chance σ g.root = rawEV (g.labelled σ) r := by
  obtain ⟨root, s, hc, rfl⟩ := fromRoot_state h
  obtain ⟨hb, _⟩ := compile_inv r {} {} s root hs BInv.empty PrevOK.empty hc
  obtain ⟨_, ih⟩ := compile_sem r {} {} s root hs hc
  exact (ih s (GrowsAll.refl s) hb.tables).2 σ hσ

mutual
/-- `ρ` is a behavioural strategy profile on the input tree: at every decision node the
probabilities of the listed actions are non-negative and sum to one -/
def LValidOn (ρ : LProfile α) : Raw α → Prop
  | .term _ => True
  | .chance _ _ ks => LValidOnL ρ ks
  | .player o l as ks => (∀ a ∈ as, 0 ≤ ρ o l a) ∧ (as.map (ρ o l)).sum = 1 ∧ LValidOnL ρ ks
def LValidOnL (ρ : LProfile α) : List (Raw α) → Prop
  | [] => True
  | k :: ks => LValidOn ρ k ∧ LValidOnL ρ ks
end


mutual
theorem reg_valid (sf : BState α) (htw : ∀ o, TablesWF (sf.infos o) (sf.singles o))
    (σ : Bool → Strat α) (hσ : Good sf σ) :
    ∀ r : Raw α, Reg sf r → LValidOn ((G sf).labelled σ) r
  | .term _, _ => by simp [LValidOn]
  | .chance _ _ ks, h => by
    simp only [Reg] at h
    simp only [LValidOn]
    exact reg_validL sf htw σ hσ ks h
  | .player o l as ks, h => by
    simp only [Reg] at h
    obtain ⟨hc, hk⟩ := h
    simp only [LValidOn]
    have ihk := reg_validL sf htw σ hσ ks hk
    rcases hc with ⟨a, rfl, hm⟩ | ⟨i, e, he, rfl, rfl⟩
    · have h1 := labelled_single (G sf) σ o l a (by simpa using htw o) (by simpa using hm)
      refine ⟨?_, ?_, ihk⟩
      · intro x hx
        simp only [List.mem_singleton] at hx
        subst hx
        rw [h1]; exact zero_le_one
      · simp [h1]
    · have hm := labelled_multi (G sf) σ o i e (by simpa using htw o) (by simpa using he)
        (hσ o).2
      obtain ⟨v, hv, _⟩ := fits_at (G sf) o (σ o) (hσ o).2 i e (by simpa using he)
      have e' : (σ o).at i = v := by simp [Strat.at, List.getD_eq_getElem?_getD, hv]
      have hd : IsDist v := (hσ o).1 v (List.mem_of_getElem? hv)
      rw [e'] at hm
      refine ⟨?_, by rw [hm]; exact hd.2, ihk⟩
      intro x hx
      apply hd.1
      rw [← hm]
      exact List.mem_map.mpr ⟨x, hx, rfl⟩
theorem reg_validL (sf : BState α) (htw : ∀ o, TablesWF (sf.infos o) (sf.singles o))
    (σ : Bool → Strat α) (hσ : Good sf σ) :
    ∀ ks : List (Raw α), RegL sf ks → LValidOnL ((G sf).labelled σ) ks
  | [], _ => by simp [LValidOnL]
  | k :: ks, h => by
    simp only [RegL] at h
    simp only [LValidOnL]
    exact ⟨reg_valid sf htw σ hσ k h.1, reg_validL sf htw σ hσ ks h.2⟩
end

/-- the tables of the compiled game are well formed and the input tree is registered in them -/
theorem fromRoot_reg {r : Raw α} (hs : Raw.Shape r) {root : Node α} {s : BState α}
    (hc : compile r {} {} = .ok (root, s)) :
    (∀ o, TablesWF (s.infos o) (s.singles o)) ∧ Reg s r := by
  obtain ⟨hb, _⟩ := compile_inv r {} {} s root hs BInv.empty PrevOK.empty hc
  obtain ⟨_, ih⟩ := compile_sem r {} {} s root hs hc
  exact ⟨hb.tables, (ih s (GrowsAll.refl s) hb.tables).1⟩

/-- the labelled reading of a valid indexed profile is a behavioural profile on the input tree -/
theorem labelled_valid (r : Raw α) (hs : Raw.Shape r) (g : Game α) (h : fromRoot r = .ok g)
    (σ : Bool → Strat α) (hσ : ∀ me : Bool, IsStrat (σ me) ∧ FitsGame g me (σ me)) :
    LValidOn (g.labelled σ) r := by
  obtain ⟨root, s, hc, rfl⟩ := fromRoot_state h
  obtain ⟨htw, hreg⟩ := fromRoot_reg hs hc
  exact reg_valid s htw σ hσ r hreg

/-- the indexed profile that plays a labelled profile -/
def Game.indexedOf (g : Game α) (ρ : LProfile α) : Bool → Strat α :=
  fun o => (g.infos o).map (fun e => e.actions.map (ρ o e.label))


/-! ## every registered infoset comes from a node of the tree -/

/-- `ρ` is a distribution on the actions of every multi-action infoset registered so far -/
def TabOK (ρ : LProfile α) (s : BState α) : Prop :=
  ∀ o, ∀ e ∈ s.infos o, (∀ a ∈ e.actions, 0 ≤ ρ o e.label a) ∧ (e.actions.map (ρ o e.label)).sum = 1

theorem TabOK.of_infos {ρ : LProfile α} {s s' : BState α} (h : TabOK ρ s)
    (hi : ∀ me, s'.infos me = s.infos me) : TabOK ρ s' :=
  fun o e he => h o e (by rw [← hi o]; exact he)

mutual
theorem compile_tab (ρ : LProfile α) : ∀ (r : Raw α) (prev : Prev) (s s' : BState α) (n : Node α),
    LValidOn ρ r → TabOK ρ s → compile r prev s = .ok (n, s') → TabOK ρ s'
  | .term pay, prev, s, s', n, _, ht, h => by
    simp only [compile] at h
    split_ifs at h
    cases h
    exact ht
  | .chance info ws kids, prev, s, s', n, hv, ht, h => by
    simp only [compile] at h
    split at h
    · cases h
    · rename_i probs nodes s1 hco
      simp only [LValidOn] at hv
      have ht1 := compileOutcomes_tab ρ ws kids prev s s1 probs nodes hv ht hco
      obtain ⟨_, hi, _⟩ := registerChance_spec h
      exact ht1.of_infos hi
  | .player one info [] kids, prev, s, s', n, hv, ht, h => by
    simp [compile] at h
  | .player one info (a :: as) [], prev, s, s', n, hv, ht, h => by
    simp [compile] at h
  | .player one info [a] (k :: ks), prev, s, s', n, hv, ht, h => by
    simp only [compile] at h
    split at h
    · cases h
    · rename_i s1 hr
      simp only [LValidOn, LValidOnL] at hv
      obtain ⟨_, _, hi⟩ := registerSingle_spec hr
      exact compile_tab ρ k prev s1 s' n hv.2.2.1 (ht.of_infos hi) h
  | .player one info (a :: b :: as) (k :: ks), prev, s, s', n, hv, ht, h => by
    simp only [compile] at h
    split at h
    · cases h
    · rename_i i s1 hr
      split at h
      · cases h
      · rename_i nodes s2 hco
        simp only [Except.ok.injEq, Prod.mk.injEq] at h
        obtain ⟨rfl, rfl⟩ := h
        simp only [LValidOn] at hv
        obtain ⟨_, _, hnew⟩ := registerPlayer_spec hr
        have ht1 : TabOK ρ s1 := by
          intro o e he
          rcases hnew o e he with he | ⟨rfl, hel, hea⟩
          · exact ht o e he
          · rw [hel, hea]; exact ⟨hv.1, hv.2.1⟩
        exact compileActions_tab ρ (k :: ks) one i 0 prev s1 s2 nodes hv.2.2 ht1 hco
theorem compileOutcomes_tab (ρ : LProfile α) : ∀ (ws : List α) (ks : List (Raw α)) (prev : Prev)
    (s s' : BState α) (ps : List α) (ns : List (Node α)),
    LValidOnL ρ ks → TabOK ρ s → compileOutcomes ws ks prev s = .ok (ps, ns, s') → TabOK ρ s'
  | [], ks, prev, s, s', ps, ns, _, ht, h => by
    simp only [compileOutcomes] at h
    cases h
    exact ht
  | _ :: _, [], prev, s, s', ps, ns, _, ht, h => by
    simp only [compileOutcomes] at h
    cases h
    exact ht
  | w :: ws, k :: ks, prev, s, s', ps, ns, hv, ht, h => by
    simp only [compileOutcomes] at h
    split_ifs at h with hw
    split at h
    · cases h
    · rename_i n s1 hc1
      split at h
      · cases h
      · rename_i ps' ns' s2 hc2
        simp only [Except.ok.injEq, Prod.mk.injEq] at h
        obtain ⟨rfl, rfl, rfl⟩ := h
        simp only [LValidOnL] at hv
        exact compileOutcomes_tab ρ ws ks prev s1 s2 ps' ns' hv.2
          (compile_tab ρ k prev s s1 n hv.1 ht hc1) hc2
theorem compileActions_tab (ρ : LProfile α) : ∀ (ks : List (Raw α)) (one : Bool) (i a : Nat)
    (prev : Prev) (s s' : BState α) (ns : List (Node α)),
    LValidOnL ρ ks → TabOK ρ s → compileActions ks one i a prev s = .ok (ns, s') → TabOK ρ s'
  | [], one, i, a, prev, s, s', ns, _, ht, h => by
    simp only [compileActions] at h
    cases h
    exact ht
  | k :: ks, one, i, a, prev, s, s', ns, hv, ht, h => by
    simp only [compileActions] at h
    split at h
    · cases h
    · rename_i n s1 hc1
      split at h
      · cases h
      · rename_i ns' s2 hc2
        simp only [Except.ok.injEq, Prod.mk.injEq] at h
        obtain ⟨rfl, rfl⟩ := h
        simp only [LValidOnL] at hv
        exact compileActions_tab ρ ks one i (a + 1) prev s1 s2 ns' hv.2
          (compile_tab ρ k _ s s1 n hv.1 ht hc1) hc2
end

theorem indexedOf_fits (g : Game α) (ρ : LProfile α) (me : Bool) :
    FitsGame g me (g.indexedOf ρ me) := by
  simp [FitsGame, Game.indexedOf, Function.comp_def]

/-! ## the labelled reading of `indexedOf ρ` is `ρ` on the tree -/

mutual
theorem reg_ev_congr (sf : BState α) (htw : ∀ o, TablesWF (sf.infos o) (sf.singles o))
    (ρ : LProfile α) :
    ∀ r : Raw α, Reg sf r → LValidOn ρ r →
      rawEV ((G sf).labelled ((G sf).indexedOf ρ)) r = rawEV ρ r
  | .term _, _, _ => by simp [rawEV]
  | .chance _ ws ks, h, hv => by
    simp only [Reg] at h
    simp only [LValidOn] at hv
    simp only [rawEV]
    exact reg_evC_congr sf htw ρ ws.sum ws ks h hv
  | .player o l as ks, h, hv => by
    simp only [Reg] at h
    simp only [LValidOn] at hv
    obtain ⟨hc, hk⟩ := h
    simp only [rawEV]
    refine reg_evP_congr sf htw ρ o l as ks ?_ hk hv.2.2
    rcases hc with ⟨a, rfl, hm⟩ | ⟨i, e, he, rfl, rfl⟩
    · intro x hx
      simp only [List.mem_singleton] at hx
      subst hx
      rw [labelled_single (G sf) _ o l x (by simpa using htw o) (by simpa using hm)]
      have := hv.2.1
      simp only [List.map_cons, List.map_nil, List.sum_cons, List.sum_nil, add_zero] at this
      exact this.symm
    · have hm := labelled_multi (G sf) ((G sf).indexedOf ρ) o i e (by simpa using htw o)
        (by simpa using he) (indexedOf_fits _ ρ o)
      have hat : ((G sf).indexedOf ρ o).at i = e.actions.map (ρ o e.label) := by
        simp [Game.indexedOf, Strat.at, List.getD_eq_getElem?_getD, List.getElem?_map, he]
      rw [hat] at hm
      exact List.map_inj_left.mp hm
theorem reg_evC_congr (sf : BState α) (htw : ∀ o, TablesWF (sf.infos o) (sf.singles o))
    (ρ : LProfile α) (t : α) :
    ∀ (ws : List α) (ks : List (Raw α)), RegL sf ks → LValidOnL ρ ks →
      rawEVC ((G sf).labelled ((G sf).indexedOf ρ)) t ws ks = rawEVC ρ t ws ks
  | [], _, _, _ => by simp [rawEVC]
  | _ :: _, [], _, _ => by simp [rawEVC]
  | w :: ws, k :: ks, h, hv => by
    simp only [RegL] at h
    simp only [LValidOnL] at hv
    simp only [rawEVC]
    rw [reg_ev_congr sf htw ρ k h.1 hv.1, reg_evC_congr sf htw ρ t ws ks h.2 hv.2]
theorem reg_evP_congr (sf : BState α) (htw : ∀ o, TablesWF (sf.infos o) (sf.singles o))
    (ρ : LProfile α) (o : Bool) (l : Nat) :
    ∀ (as : List Nat) (ks : List (Raw α)),
      (∀ a ∈ as, (G sf).labelled ((G sf).indexedOf ρ) o l a = ρ o l a) →
      RegL sf ks → LValidOnL ρ ks →
      rawEVP ((G sf).labelled ((G sf).indexedOf ρ)) o l as ks = rawEVP ρ o l as ks
  | [], _, _, _, _ => by simp [rawEVP]
  | _ :: _, [], _, _, _ => by simp [rawEVP]
  | a :: as, k :: ks, ha, h, hv => by
    simp only [RegL] at h
    simp only [LValidOnL] at hv
    simp only [rawEVP]
    rw [reg_ev_congr sf htw ρ k h.1 hv.1,
      reg_evP_congr sf htw ρ o l as ks (fun x hx => ha x (by simp [hx])) h.2 hv.2,
      ha a (by simp)]
end

/-- conversely every behavioural profile on the input tree is played by a valid indexed profile
of the compiled game with the same expected payoff — so maximising over indexed strategies
(C01) is maximising over all behavioural strategies of the game as written -/
theorem indexedOf_valid (r : Raw α) (hs : Raw.Shape r) (g : Game α) (h : fromRoot r = .ok g)
    (ρ : LProfile α) (hρ : LValidOn ρ r) :
    (∀ me : Bool, IsStrat (g.indexedOf ρ me) ∧ FitsGame g me (g.indexedOf ρ me)) ∧
    rawEV (g.labelled (g.indexedOf ρ)) r = rawEV ρ r := by
  obtain ⟨root, s, hc, rfl⟩ := fromRoot_state h
  obtain ⟨htw, hreg⟩ := fromRoot_reg hs hc
  have ht0 : TabOK ρ ({} : BState α) := by
    intro o e he
    have hi0 : ({} : BState α).infos o = [] := by cases o <;> rfl
    rw [hi0] at he
    simp at he
  have ht := compile_tab ρ r {} {} s root hρ ht0 hc
  refine ⟨fun me => ⟨?_, indexedOf_fits _ ρ me⟩, reg_ev_congr s htw ρ r hreg hρ⟩
  intro v hv
  obtain ⟨e, he, rfl⟩ := List.mem_map.mp hv
  obtain ⟨h1, h2⟩ := ht me e (by simpa using he)
  refine ⟨fun p hp => ?_, h2⟩
  obtain ⟨a, ha, rfl⟩ := List.mem_map.mp hp
  exact h1 a ha

/-! ## non-vacuity -/

/-- a single-outcome chance node (weight `5`) above a named chance node with unnormalised weights
`1 : 3`; player one has a single-action node (label `99`) and a shared two-action infoset (label
`5`), player two a single-action node (label `2`) -/
def exSem : Raw ℚ :=
  .chance none [5] [
    .chance (some 4) [1, 3]
      [.player true 99 [42]
        [.player true 5 [0, 1] [.term 1, .player false 2 [7] [.term 0]]],
       .player true 5 [0, 1] [.term (-1), .term 3]]]

/-- player one plays `(1/3, 2/3)` at its only multi-action infoset -/
def exSemσ : Bool → Strat ℚ := fun o => if o then [[1/3, 2/3]] else []

/-- the labelled profile written by hand -/
def exSemρ : LProfile ℚ := fun o l a =>
  if o && l == 5 && a == 0 then 1/3 else if o && l == 5 && a == 1 then 2/3
  else if o && l == 99 && a == 42 then 1 else if !o && l == 2 && a == 7 then 1 else 0

/-- on the example: the compiled game evaluates to `4/3`, so does the input tree under the
labelled reading of the profile and under the hand-written labelled profile; the labelled reading
gives the single-action node probability one and the second action of infoset `5` probability
`2/3` -/
def exSemCheck : Bool :=
  match fromRoot exSem with
  | .ok g =>
    decide (expected g.chance exSemσ g.root = 4/3) &&
    decide (rawEV (g.labelled exSemσ) exSem = 4/3) &&
    decide (rawEV exSemρ exSem = 4/3) &&
    decide (g.labelled exSemσ true 99 42 = 1) &&
    decide (g.labelled exSemσ true 5 1 = 2/3) &&
    decide (rawEV (g.labelled (g.indexedOf exSemρ)) exSem = 4/3)
  | .error _ => false

example : exSemCheck = true := by decide +kernel

example : Raw.Shape exSem := by simp [exSem, Raw.Shape, Raw.ShapeL]

example : LValidOn exSemρ exSem := by
  simp only [exSem, LValidOn, LValidOnL]
  norm_num [exSemρ]

end Cfr
