import CfrVerif.Proofs.PresetGameInv
import CfrVerif.Model.External
/-!
# External sampling: both players' averages weight iteration `t` by `t^γ`

In `external.rs` the updating player of a pass is advanced right after that pass: player one in
the first pass of iteration `t` with the *average* index `t − 1` (`if FIRST { it - 1 } else { it }`),
player two in the second pass with `t`.  A player's average-strategy accumulator receives its
additions during the *other* player's pass.  The shift by one is exactly what makes both players
weight the additions of iteration `t` by `t^γ`: after `t` iterations

* player two's accumulator times `(t+1)^γ` is `Σ_{k ≤ t} k^γ · (additions of iteration k)`,
* player one's accumulator times `t^γ` is `Σ_{k ≤ t} k^γ · (additions of iteration k)`.
-/
set_option linter.unusedSectionVars false
set_option linter.unusedVariables false
namespace Cfr

/-- the state of the external-sampling solver after `t` iterations (no early termination) -/
noncomputable def extRun (g : Game ℝ) (p : RegretParams ℝ) (draw : DrawFn ℝ) :
    Nat → SolveSt ℝ × List (DrawRec ℝ)
  | 0 => (SolveSt.init g, [])
  | t + 1 =>
    ((externalIter g p draw (t + 1) (extRun g p draw t).1 (extRun g p draw t).2).1,
     (externalIter g p draw (t + 1) (extRun g p draw t).1 (extRun g p draw t).2).2.2.2)

/-- the state in the middle of iteration `t + 1`: after player one's pass, before player two's -/
noncomputable def extMid (g : Game ℝ) (p : RegretParams ℝ) (draw : DrawFn ℝ) (t : Nat) :
    SolveSt ℝ × List (DrawRec ℝ) :=
  ((externalPass g true p draw (t + 1) (extRun g p draw t).1 (extRun g p draw t).2).1,
   (externalPass g true p draw (t + 1) (extRun g p draw t).1 (extRun g p draw t).2).2.2)

/-- the external pass's context, as `externalPass` builds it -/
noncomputable def xPassCtx (g : Game ℝ) (first : Bool) (draw : DrawFn ℝ) (it : Nat) (s : SolveSt ℝ) : ECtx ℝ :=
  ⟨g.chance, first, s.strat, draw, 2 * (it - 1) + (if first then 0 else 1), if first then it - 1 else it⟩

/-- what iteration `k + 1` adds to the average-strategy accumulator `(me, I, a)`: player two's
accumulators are fed by player one's pass, player one's by player two's pass -/
noncomputable def extStratInc (g : Game ℝ) (p : RegretParams ℝ) (draw : DrawFn ℝ) (k : Nat) (me : Bool)
    (I a : Nat) : ℝ :=
  if me then
    effSum (erec (xPassCtx g false draw (k + 1) (extMid g p draw k).1) g.root
      { log := (extMid g p draw k).2 }).2.1 true I Slot.strat a
  else
    effSum (erec (xPassCtx g true draw (k + 1) (extRun g p draw k).1) g.root
      { log := (extRun g p draw k).2 }).2.1 false I Slot.strat a

namespace XA

/-! ## the run -/

theorem extRun_zero (g : Game ℝ) (p : RegretParams ℝ) (draw : DrawFn ℝ) :
    extRun g p draw 0 = (SolveSt.init g, []) := rfl

theorem extRun_succ (g : Game ℝ) (p : RegretParams ℝ) (draw : DrawFn ℝ) (t : Nat) :
    extRun g p draw (t + 1) =
      ((externalIter g p draw (t + 1) (extRun g p draw t).1 (extRun g p draw t).2).1,
       (externalIter g p draw (t + 1) (extRun g p draw t).1 (extRun g p draw t).2).2.2.2) := rfl

/-- the end of iteration `t + 1` is player two's pass on the mid state -/
theorem extRun_succ_mid (g : Game ℝ) (p : RegretParams ℝ) (draw : DrawFn ℝ) (t : Nat) :
    (extRun g p draw (t + 1)).1 =
      (externalPass g false p draw (t + 1) (extMid g p draw t).1 (extMid g p draw t).2).1 := rfl

/-- without a threshold the loop performs all its iterations -/
theorem solveLoop_none_extRun (g : Game ℝ) (p : RegretParams ℝ) (draw : DrawFn ℝ) :
    ∀ (n t : Nat) (r1 r2 : Ext ℝ),
      (solveLoop (externalIter g p draw) none n (t + 1) (extRun g p draw t).1 r1 r2
          (extRun g p draw t).2).stratOne = (extRun g p draw (t + n)).1.avg true ∧
      (solveLoop (externalIter g p draw) none n (t + 1) (extRun g p draw t).1 r1 r2
          (extRun g p draw t).2).stratTwo = (extRun g p draw (t + n)).1.avg false := by
  intro n
  induction n with
  | zero => intro t r1 r2; simp [solveLoop]
  | succ n ih =>
    intro t r1 r2
    rw [wf_solveLoop_succ]
    have hb : ∀ a b : ℝ, belowThreshold a b none = false := fun _ _ => rfl
    rw [hb]
    simp only [Bool.false_eq_true, if_false]
    have := ih (t + 1) (.fin (externalIter g p draw (t + 1) (extRun g p draw t).1
      (extRun g p draw t).2).2.1) (.fin (externalIter g p draw (t + 1) (extRun g p draw t).1
      (extRun g p draw t).2).2.2.1)
    rw [extRun_succ] at this
    rw [show t + (n + 1) = t + 1 + n by omega]
    exact this

/-! ## `get` / `set` -/

theorem get_set_self (s : SolveSt ℝ) (o : Bool) (l : List (InfoSt ℝ)) : (s.set o l).get o = l := by
  cases o <;> simp [SolveSt.set, SolveSt.get]

theorem get_set_other (s : SolveSt ℝ) (o me : Bool) (l : List (InfoSt ℝ)) (h : me ≠ o) :
    (s.set o l).get me = s.get me := by
  cases o <;> cases me <;> simp_all [SolveSt.set, SolveSt.get]

/-- the effect list of one pass -/
noncomputable def passEffs (g : Game ℝ) (first : Bool) (draw : DrawFn ℝ) (it : Nat) (s : SolveSt ℝ)
    (log : List (DrawRec ℝ)) : List (Eff ℝ) :=
  (erec (xPassCtx g first draw it s) g.root { log := log }).2.1

theorem externalPass_get_self (g : Game ℝ) (first : Bool) (p : RegretParams ℝ) (draw : DrawFn ℝ)
    (it : Nat) (s : SolveSt ℝ) (log : List (DrawRec ℝ)) :
    (externalPass g first p draw it s log).1.get first
      = ((s.applyEffs (passEffs g first draw it s log)).get first).map
          (fun x => (x.advance p it (if first then it - 1 else it)).1) := by
  simp only [externalPass, get_set_self]
  exact (advanceAll_spec p it _ _ 0).1

theorem externalPass_get_other (g : Game ℝ) (first : Bool) (p : RegretParams ℝ) (draw : DrawFn ℝ)
    (it : Nat) (s : SolveSt ℝ) (log : List (DrawRec ℝ)) (me : Bool) (h : me ≠ first) :
    (externalPass g first p draw it s log).1.get me
      = (s.applyEffs (passEffs g first draw it s log)).get me := by
  simp only [externalPass, get_set_other _ _ _ _ h]
  rfl

/-! ## nothing is added to the updating player's average-strategy accumulators -/

theorem effSum_subEffsE_strat (one : Bool) (i : Nat) (sub : ℝ) (n : Nat) (me : Bool) (I a : Nat) :
    effSum (subEffsE one i sub n) me I Slot.strat a = 0 :=
  effSum_subEffs_strat one i sub n me I a

theorem effSum_extStratEffs_strat_ne (one : Bool) (i : Nat) (me : Bool) (I a : Nat) (h : one ≠ me) :
    ∀ (σ : List ℝ) (k : Nat), effSum (extStratEffs one i σ k) me I Slot.strat a = 0
  | [], k => by simp [extStratEffs]
  | s :: σ, k => by
    simp [extStratEffs, effSum_cons, h, effSum_extStratEffs_strat_ne one i me I a h σ (k + 1)]

theorem effSum_cons_regret_strat (one : Bool) (i k : Nat) (δ : ℝ) (es : List (Eff ℝ)) (me : Bool)
    (I a : Nat) :
    effSum (⟨one, i, .regret, k, δ⟩ :: es) me I Slot.strat a = effSum es me I Slot.strat a := by
  rw [effSum_cons]
  simp

mutual
theorem erec_strat_zero (c : ECtx ℝ) (I a : Nat) :
    ∀ (n : Node ℝ) (d : DrawSt ℝ), effSum (erec c n d).2.1 c.first I Slot.strat a = 0
  | .term p, d => by simp [erec]
  | .chance i ks, d => by
    rw [erec_chance']
    exact erecNth_strat_zero c I a ks _ _
  | .player one i ks, d => by
    by_cases ho : (one == c.first) = true
    · rw [erec_own' c one i ks d ho]
      simp only [effSum_append, effSum_subEffsE_strat, add_zero]
      exact erecActs_strat_zero c I a one i _ ks d 0 0
    · have ho' : one ≠ c.first := by simpa using ho
      rw [erec_opp' c one i ks d ho]
      simp only [effSum_append, effSum_extStratEffs_strat_ne one i c.first I a ho', zero_add]
      exact erecNth_strat_zero c I a ks _ _
theorem erecNth_strat_zero (c : ECtx ℝ) (I a : Nat) :
    ∀ (ks : List (Node ℝ)) (k : Nat) (d : DrawSt ℝ),
      effSum (erecNth c ks k d).2.1 c.first I Slot.strat a = 0
  | [], _, d => by simp [erecNth]
  | k :: _, 0, d => by
    simp only [erecNth]
    exact erec_strat_zero c I a k d
  | _ :: ks, n + 1, d => by
    simp only [erecNth]
    exact erecNth_strat_zero c I a ks n d
theorem erecActs_strat_zero (c : ECtx ℝ) (I a : Nat) (one : Bool) (i : Nat) :
    ∀ (ss : List ℝ) (ks : List (Node ℝ)) (d : DrawSt ℝ) (k : Nat) (ex : ℝ),
      effSum (erecActs c one i ss ks d k ex).2.1 c.first I Slot.strat a = 0
  | s :: ss, n :: ks, d, k, ex => by
    rw [erecActs_cons']
    simp only [effSum_append]
    rw [effSum_cons_regret_strat, erec_strat_zero c I a n d,
      erecActs_strat_zero c I a one i ss ks _ _ _]
    simp
  | [], _, d, _, _ => by simp [erecActs]
  | _ :: _, [], d, _, _ => by simp [erecActs]
end

theorem passEffs_strat_zero (g : Game ℝ) (first : Bool) (draw : DrawFn ℝ) (it : Nat) (s : SolveSt ℝ)
    (log : List (DrawRec ℝ)) (I a : Nat) :
    effSum (passEffs g first draw it s log) first I Slot.strat a = 0 :=
  erec_strat_zero (xPassCtx g first draw it s) I a g.root _

/-! ## one pass, one cell -/

/-- the table sizes are unchanged by a pass -/
theorem externalPass_length (g : Game ℝ) (first : Bool) (p : RegretParams ℝ) (draw : DrawFn ℝ)
    (it : Nat) (s : SolveSt ℝ) (log : List (DrawRec ℝ)) (me : Bool) :
    ((externalPass g first p draw it s log).1.get me).length = (s.get me).length := by
  by_cases h : me = first
  · subst h
    rw [externalPass_get_self, List.length_map]
    exact (applyEffs_cell s _ me).1
  · rw [externalPass_get_other _ _ _ _ _ _ _ _ h]
    exact (applyEffs_cell s _ me).1

/-- the updating player's accumulator: nothing added, then the discount with the average index -/
theorem externalPass_cell_self (g : Game ℝ) (first : Bool) (p : RegretParams ℝ) (hp : 0 ≤ p.strat)
    (draw : DrawFn ℝ) (it : Nat) (s : SolveSt ℝ) (log : List (DrawRec ℝ)) (I : Nat) (x : InfoSt ℝ)
    (hx : (s.get first)[I]? = some x) :
    ∃ x', ((externalPass g first p draw it s log).1.get first)[I]? = some x' ∧
      x'.cumStrat.length = x.cumStrat.length ∧
      ∀ a, a < x.cumStrat.length →
        x'.cumStrat.getD a 0 = x.cumStrat.getD a 0 *
          (((if first then it - 1 else it : Nat) : ℝ) /
            (((if first then it - 1 else it : Nat) : ℝ) + 1)) ^ p.strat := by
  obtain ⟨_, hc⟩ := applyEffs_cell s (passEffs g first draw it s log) first
  obtain ⟨x1, g1, _, _, t2, _, cs2⟩ := hc I x hx
  refine ⟨(x1.advance p it (if first then it - 1 else it)).1, ?_, ?_, ?_⟩
  · rw [externalPass_get_self, List.getElem?_map, g1]; rfl
  · simp only [InfoSt.advance]
    rw [discountAverageStrat_entry p hp, List.length_map, t2]
  · intro a ha
    simp only [InfoSt.advance]
    rw [discountAverageStrat_entry p hp, getD_map_lt _ _ a (by rw [t2]; exact ha), cs2 a ha,
      passEffs_strat_zero, add_zero]

/-- the other player's accumulator: the pass's additions, no discount -/
theorem externalPass_cell_other (g : Game ℝ) (first : Bool) (p : RegretParams ℝ)
    (draw : DrawFn ℝ) (it : Nat) (s : SolveSt ℝ) (log : List (DrawRec ℝ)) (me : Bool)
    (hme : me ≠ first) (I : Nat) (x : InfoSt ℝ) (hx : (s.get me)[I]? = some x) :
    ∃ x', ((externalPass g first p draw it s log).1.get me)[I]? = some x' ∧
      x'.cumStrat.length = x.cumStrat.length ∧
      ∀ a, a < x.cumStrat.length →
        x'.cumStrat.getD a 0 = x.cumStrat.getD a 0
          + effSum (passEffs g first draw it s log) me I Slot.strat a := by
  obtain ⟨_, hc⟩ := applyEffs_cell s (passEffs g first draw it s log) me
  obtain ⟨x1, g1, _, _, t2, _, cs2⟩ := hc I x hx
  refine ⟨x1, ?_, t2, cs2⟩
  rw [externalPass_get_other _ _ _ _ _ _ _ _ hme, g1]

/-! ## table sizes along the run -/

theorem extMid_length (g : Game ℝ) (p : RegretParams ℝ) (draw : DrawFn ℝ) (t : Nat) (me : Bool) :
    ((extMid g p draw t).1.get me).length = ((extRun g p draw t).1.get me).length :=
  externalPass_length g true p draw (t + 1) _ _ me

theorem extRun_succ_length (g : Game ℝ) (p : RegretParams ℝ) (draw : DrawFn ℝ) (t : Nat) (me : Bool) :
    ((extRun g p draw (t + 1)).1.get me).length = ((extMid g p draw t).1.get me).length := by
  rw [extRun_succ_mid]
  exact externalPass_length g false p draw (t + 1) _ _ me

/-! ## one iteration, one cell -/

/-- player two's accumulator through iteration `t + 1` -/
theorem step_two (g : Game ℝ) (p : RegretParams ℝ) (hp : 0 ≤ p.strat) (draw : DrawFn ℝ) (t : Nat)
    (I : Nat) (x : InfoSt ℝ) (hx : ((extRun g p draw t).1.get false)[I]? = some x) :
    ∃ x'', ((extRun g p draw (t + 1)).1.get false)[I]? = some x'' ∧
      x''.cumStrat.length = x.cumStrat.length ∧
      ∀ a, a < x.cumStrat.length →
        x''.cumStrat.getD a 0 = (x.cumStrat.getD a 0 + extStratInc g p draw t false I a) *
          (((t + 1 : Nat) : ℝ) / (((t + 1 : Nat) : ℝ) + 1)) ^ p.strat := by
  obtain ⟨x1, h1, l1, c1⟩ := externalPass_cell_other g true p draw (t + 1) (extRun g p draw t).1
    (extRun g p draw t).2 false (by simp) I x hx
  obtain ⟨x2, h2, l2, c2⟩ := externalPass_cell_self g false p hp draw (t + 1) (extMid g p draw t).1
    (extMid g p draw t).2 I x1 h1
  refine ⟨x2, by rw [extRun_succ_mid]; exact h2, l2.trans l1, ?_⟩
  intro a ha
  rw [c2 a (by rw [l1]; exact ha), c1 a ha]
  simp only [Bool.false_eq_true, if_false]
  rfl

/-- player one's accumulator through iteration `t + 1` -/
theorem step_one (g : Game ℝ) (p : RegretParams ℝ) (hp : 0 ≤ p.strat) (draw : DrawFn ℝ) (t : Nat)
    (I : Nat) (x : InfoSt ℝ) (hx : ((extRun g p draw t).1.get true)[I]? = some x) :
    ∃ x'', ((extRun g p draw (t + 1)).1.get true)[I]? = some x'' ∧
      x''.cumStrat.length = x.cumStrat.length ∧
      ∀ a, a < x.cumStrat.length →
        x''.cumStrat.getD a 0 = x.cumStrat.getD a 0 *
          (((t : Nat) : ℝ) / (((t : Nat) : ℝ) + 1)) ^ p.strat + extStratInc g p draw t true I a := by
  obtain ⟨x1, h1, l1, c1⟩ := externalPass_cell_self g true p hp draw (t + 1) (extRun g p draw t).1
    (extRun g p draw t).2 I x hx
  obtain ⟨x2, h2, l2, c2⟩ := externalPass_cell_other g false p draw (t + 1) (extMid g p draw t).1
    (extMid g p draw t).2 true (by simp) I x1 h1
  refine ⟨x2, by rw [extRun_succ_mid]; exact h2, l2.trans l1, ?_⟩
  intro a ha
  rw [c2 a (by rw [l1]; exact ha), c1 a ha]
  simp only [if_true, Nat.add_sub_cancel]
  rfl

/-- `(t/(t+1))^γ · (t+1)^γ = t^γ`, also at `t = 0` -/
theorem ratio_rpow (γ : ℝ) (t : Nat) :
    (((t : Nat) : ℝ) / (((t : Nat) : ℝ) + 1)) ^ γ * ((t + 1 : Nat) : ℝ) ^ γ = ((t : Nat) : ℝ) ^ γ := by
  have h1 : (0 : ℝ) ≤ (t : ℝ) := by positivity
  have h2 : (0 : ℝ) ≤ (t : ℝ) + 1 := by positivity
  have e : ((t + 1 : Nat) : ℝ) = (t : ℝ) + 1 := by push_cast; ring
  rw [Real.div_rpow h1 h2, e]
  have h3 : ((t : ℝ) + 1) ^ γ ≠ 0 := (Real.rpow_pos_of_pos (by positivity) _).ne'
  exact div_mul_cancel₀ _ h3

end XA

open XA in
/-- the run is what `solve_external_single` computes -/
theorem extRun_returns (g : Game ℝ) (p : RegretParams ℝ) (draw : DrawFn ℝ) (T : Nat) :
    (solveExternalSingle g p draw T none).stratOne = (extRun g p draw T).1.avg true ∧
    (solveExternalSingle g p draw T none).stratTwo = (extRun g p draw T).1.avg false := by
  have := solveLoop_none_extRun g p draw T 0 .posInf .posInf
  simp only [zero_add, extRun_zero] at this
  unfold solveExternalSingle solveWith
  exact this

open XA in
/-- **player two's average weights** -/
theorem external_avg_weights_two (g : Game ℝ) (hg : GameWF g) (p : RegretParams ℝ) (hp : 0 ≤ p.strat)
    (draw : DrawFn ℝ) (t : Nat) (I : Nat) (x : InfoSt ℝ)
    (hx : ((extRun g p draw t).1.get false)[I]? = some x) (a : Nat) (ha : a < x.cumStrat.length) :
    x.cumStrat.getD a 0 * ((t + 1 : Nat) : ℝ) ^ p.strat
      = ((List.range t).map (fun k => ((k + 1 : Nat) : ℝ) ^ p.strat *
          extStratInc g p draw k false I a)).sum := by
  induction t generalizing x with
  | zero =>
    obtain ⟨n, rfl⟩ := PG.init_cell g false I x hx
    simp only [InfoSt.new, List.getD_eq_getElem?_getD, List.getElem?_replicate, List.range_zero,
      List.map_nil, List.sum_nil]
    split_ifs <;> simp
  | succ t ih =>
    have hI : I < ((extRun g p draw t).1.get false).length := by
      rw [← extMid_length, ← extRun_succ_length]
      exact (List.getElem?_eq_some_iff.mp hx).1
    have hx0 := List.getElem?_eq_getElem hI
    obtain ⟨y, hy, ly, cy⟩ := step_two g p hp draw t I _ hx0
    rw [hy] at hx
    obtain rfl : y = x := by simpa using hx
    have ha0 : a < (((extRun g p draw t).1.get false)[I]).cumStrat.length := by rw [← ly]; exact ha
    have ih' := ih _ hx0 ha0
    rw [cy a ha0, List.range_succ, List.map_append, List.sum_append, ← ih', mul_assoc]
    have := PG.ratio_wgt p t
    unfold PG.wgt at this
    rw [this]
    simp only [List.map_cons, List.map_nil, List.sum_cons, List.sum_nil]
    ring

open XA in
/-- **player one's average weights** (the `it − 1` of the first player compensates that its
additions of iteration `t` arrive after its advance of iteration `t`) -/
theorem external_avg_weights_one (g : Game ℝ) (hg : GameWF g) (p : RegretParams ℝ) (hp : 0 ≤ p.strat)
    (draw : DrawFn ℝ) (t : Nat) (I : Nat) (x : InfoSt ℝ)
    (hx : ((extRun g p draw t).1.get true)[I]? = some x) (a : Nat) (ha : a < x.cumStrat.length) :
    x.cumStrat.getD a 0 * ((t : Nat) : ℝ) ^ p.strat
      = ((List.range t).map (fun k => ((k + 1 : Nat) : ℝ) ^ p.strat *
          extStratInc g p draw k true I a)).sum := by
  induction t generalizing x with
  | zero =>
    obtain ⟨n, rfl⟩ := PG.init_cell g true I x hx
    simp only [InfoSt.new, List.getD_eq_getElem?_getD, List.getElem?_replicate, List.range_zero,
      List.map_nil, List.sum_nil]
    split_ifs <;> simp
  | succ t ih =>
    have hI : I < ((extRun g p draw t).1.get true).length := by
      rw [← extMid_length, ← extRun_succ_length]
      exact (List.getElem?_eq_some_iff.mp hx).1
    have hx0 := List.getElem?_eq_getElem hI
    obtain ⟨y, hy, ly, cy⟩ := step_one g p hp draw t I _ hx0
    rw [hy] at hx
    obtain rfl : y = x := by simpa using hx
    have ha0 : a < (((extRun g p draw t).1.get true)[I]).cumStrat.length := by rw [← ly]; exact ha
    have ih' := ih _ hx0 ha0
    rw [cy a ha0, List.range_succ, List.map_append, List.sum_append, ← ih', add_mul, mul_assoc,
      ratio_rpow]
    simp only [List.map_cons, List.map_nil, List.sum_cons, List.sum_nil]
    ring

end Cfr
