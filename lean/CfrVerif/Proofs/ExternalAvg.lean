import CfrVerif.Proofs.PresetGameInv
import CfrVerif.Model.External
/-!
# External sampling: both players' averages weight iteration `t` by `t^γ`

In `external.rs` the updating player of a pass is advanced right after that pass: player one in
the first pass of iteration `t` with the *average* index `t − 1` (`if FIRST { it - 1 } else { it }`),
player two in the second pass with `t`.  A player's average-strategy accumulator receives its
additions during the *other* player's pass.  The shift by one is exactly what makes both players
weight the additions of iteration `t` by `t^γ`: after `t` iterations

* player two's accumulator times `(t+1)^γ` is `Σ_{k ≤ t} k^γ · (additions of iteration k)`,
* player one's accumulator times `t^γ` is `Σ_{k ≤ t} k^γ · (additions of iteration k)`.
-/
set_option linter.unusedSectionVars false
namespace Cfr

/-- the state of the external-sampling solver after `t` iterations (no early termination) -/
noncomputable def extRun (g : Game ℝ) (p : RegretParams ℝ) (draw : DrawFn ℝ) :
    Nat → SolveSt ℝ × List (DrawRec ℝ)
  | 0 => (SolveSt.init g, [])
  | t + 1 =>
    ((externalIter g p draw (t + 1) (extRun g p draw t).1 (extRun g p draw t).2).1,
     (externalIter g p draw (t + 1) (extRun g p draw t).1 (extRun g p draw t).2).2.2.2)

/-- the state in the middle of iteration `t + 1`: after player one's pass, before player two's -/
noncomputable def extMid (g : Game ℝ) (p : RegretParams ℝ) (draw : DrawFn ℝ) (t : Nat) :
    SolveSt ℝ × List (DrawRec ℝ) :=
  ((externalPass g true p draw (t + 1) (extRun g p draw t).1 (extRun g p draw t).2).1,
   (externalPass g true p draw (t + 1) (extRun g p draw t).1 (extRun g p draw t).2).2.2)

/-- the external pass's context, as `externalPass` builds it -/
noncomputable def xPassCtx (g : Game ℝ) (first : Bool) (draw : DrawFn ℝ) (it : Nat) (s : SolveSt ℝ) : ECtx ℝ :=
  ⟨g.chance, first, s.strat, draw, 2 * (it - 1) + (if first then 0 else 1), if first then it - 1 else it⟩

/-- what iteration `k + 1` adds to the average-strategy accumulator `(me, I, a)`: player two's
accumulators are fed by player one's pass, player one's by player two's pass -/
noncomputable def extStratInc (g : Game ℝ) (p : RegretParams ℝ) (draw : DrawFn ℝ) (k : Nat) (me : Bool)
    (I a : Nat) : ℝ :=
  if me then
    effSum (erec (xPassCtx g false draw (k + 1) (extMid g p draw k).1) g.root
      { log := (extMid g p draw k).2 }).2.1 true I Slot.strat a
  else
    effSum (erec (xPassCtx g true draw (k + 1) (extRun g p draw k).1) g.root
      { log := (extRun g p draw k).2 }).2.1 false I Slot.strat a

/-- the run is what `solve_external_single` computes -/
theorem extRun_returns (g : Game ℝ) (p : RegretParams ℝ) (draw : DrawFn ℝ) (T : Nat) :
    (solveExternalSingle g p draw T none).stratOne = (extRun g p draw T).1.avg true ∧
    (solveExternalSingle g p draw T none).stratTwo = (extRun g p draw T).1.avg false := by
  sorry

/-- **player two's average weights** -/
theorem external_avg_weights_two (g : Game ℝ) (hg : GameWF g) (p : RegretParams ℝ) (hp : 0 ≤ p.strat)
    (draw : DrawFn ℝ) (t : Nat) (I : Nat) (x : InfoSt ℝ)
    (hx : ((extRun g p draw t).1.get false)[I]? = some x) (a : Nat) (ha : a < x.cumStrat.length) :
    x.cumStrat.getD a 0 * ((t + 1 : Nat) : ℝ) ^ p.strat
      = ((List.range t).map (fun k => ((k + 1 : Nat) : ℝ) ^ p.strat *
          extStratInc g p draw k false I a)).sum := by
  sorry

/-- **player one's average weights** (the `it − 1` of the first player compensates that its
additions of iteration `t` arrive after its advance of iteration `t`) -/
theorem external_avg_weights_one (g : Game ℝ) (hg : GameWF g) (p : RegretParams ℝ) (hp : 0 ≤ p.strat)
    (draw : DrawFn ℝ) (t : Nat) (I : Nat) (x : InfoSt ℝ)
    (hx : ((extRun g p draw t).1.get true)[I]? = some x) (a : Nat) (ha : a < x.cumStrat.length) :
    x.cumStrat.getD a 0 * ((t : Nat) : ℝ) ^ p.strat
      = ((List.range t).map (fun k => ((k + 1 : Nat) : ℝ) ^ p.strat *
          extStratInc g p draw k true I a)).sum := by
  sorry

end Cfr
