import CfrVerif.Proofs.Trajectory
import CfrVerif.Proofs.RegretDecomp
import CfrVerif.Proofs.WellFormed
import CfrVerif.Proofs.Frontier
import CfrVerif.Props.C01
/-!
# Assembly of the C02 argument: cumulative regrets of the vanilla run, the average strategy,
and the zero-sum sandwich
-/
set_option linter.unusedSectionVars false
namespace Cfr

end Cfr
