import CfrVerif.Proofs.Trajectory
import CfrVerif.Proofs.RegretDecomp
import CfrVerif.Proofs.WellFormed
import CfrVerif.Proofs.Frontier
import CfrVerif.Props.C01
/-!
# Assembly of the C02 argument: cumulative regrets of the vanilla run, the average strategy,
and the zero-sum sandwich

1. `Inv g σs s` : the state `s` of an unsampled vanilla run that has read the profiles `σs`
   holds, in every accumulator cell, the sum over `σs` of the instantaneous counterfactual
   regrets (`regAdd`) / reach-weighted strategy masses (`stratAdd`); `vanillaIter_step` is one
   iteration, `loop_final` the whole loop (any threshold).
2. `regret_side` : for every valid own strategy `τ` the summed gain of `τ` over the iterates is
   at most `T/2` times the reported bound.
3. `avg_side` : the returned average strategy is realisation-equivalent to the uniform mixture of
   the iterates.
4. `bound_dominates` : the zero-sum sandwich.
-/
set_option linter.unusedSectionVars false
set_option linter.unusedVariables false
namespace Cfr
noncomputable section

/-! ## vanilla parameters: the discounts are identities -/

theorem discountCumRegret_vanilla (it : ℕ) (R : List ℝ) :
    discountCumRegret RegretParams.vanilla it R = R := by
  simp only [discountCumRegret, RegretParams.vanilla, genDiscount, mul_one]
  conv_rhs => rw [← List.map_id R]
  apply List.map_congr_left
  intro r _
  split_ifs <;> rfl

theorem discountAverageStrat_vanilla (it : ℕ) (v : List ℝ) :
    discountAverageStrat RegretParams.vanilla it v = v := by
  simp [discountAverageStrat, RegretParams.vanilla]

/-- `advance` of one infoset with vanilla parameters: only the current strategy changes -/
def advV (x : InfoSt ℝ) : InfoSt ℝ := ⟨x.cumRegret, x.cumStrat, regretMatch (.fin 0) x.cumRegret⟩

theorem advance_vanilla (it itAvg : ℕ) (x : InfoSt ℝ) :
    x.advance RegretParams.vanilla it itAvg = (advV x, cumRegretBound it x.cumRegret) := by
  simp only [InfoSt.advance, discountCumRegret_vanilla, discountAverageStrat_vanilla]
  rfl

/-- the per-player bound: the per-infoset bounds summed over the table -/
def boundSum (it : ℕ) (xs : List (InfoSt ℝ)) : ℝ :=
  (xs.map (fun x => cumRegretBound it x.cumRegret)).sum

theorem advanceAll_vanilla (it itAvg : ℕ) : ∀ (xs : List (InfoSt ℝ)) (acc : ℝ),
    advanceAll RegretParams.vanilla it itAvg xs acc = (xs.map advV, acc + boundSum it xs)
  | [], acc => by simp [advanceAll, boundSum]
  | x :: xs, acc => by
    simp only [advanceAll, advance_vanilla, advanceAll_vanilla it itAvg xs, boundSum,
      List.map_cons, List.sum_cons]
    rw [add_assoc]

theorem boundSum_advV (it : ℕ) (xs : List (InfoSt ℝ)) :
    boundSum it (xs.map advV) = boundSum it xs := by
  simp [boundSum, List.map_map, Function.comp_def, advV]

theorem boundSum_nonneg (it : ℕ) (xs : List (InfoSt ℝ)) : 0 ≤ boundSum it xs := by
  unfold boundSum
  apply List.sum_nonneg
  intro v hv
  obtain ⟨x, _, rfl⟩ := List.mem_map.mp hv
  exact cumRegretBound_nonneg _ _

/-! ## the profile a state reads; reading the table -/

/-- the profile a traversal of the state `s` reads -/
def SolveSt.profile (s : SolveSt ℝ) : Profile ℝ := fun one => (s.get one).map (fun x => x.strat)

theorem ctxOf_profile (g : Game ℝ) (s : SolveSt ℝ) (sampled : Bool) (draw : DrawFn ℝ) (pass : ℕ) :
    CtxOf ⟨g.chance, sampled, s.strat, draw, pass⟩ s.profile := by
  intro one i
  simp only [SolveSt.strat, SolveSt.profile, Strat.at, List.getD_eq_getElem?_getD,
    List.getElem?_map]
  cases (s.get one)[i]? <;> rfl

theorem profile_at (s : SolveSt ℝ) (me : Bool) (I : ℕ) (x : InfoSt ℝ)
    (hx : (s.get me)[I]? = some x) : (s.profile me).at I = x.strat := by
  simp [SolveSt.profile, Strat.at, List.getD_eq_getElem?_getD, List.getElem?_map, hx]

theorem tableOK_get : ∀ (es : List PInfo) (xs : List (InfoSt ℝ)), TableOK es xs →
    ∀ (I : ℕ) (x : InfoSt ℝ), xs[I]? = some x →
      ∃ e, es[I]? = some e ∧ InfoOK e.actions.length x
  | [], [], _, I, x, hx => by simp at hx
  | e :: es, y :: xs, h, 0, x, hx => by
    simp only [TableOK] at h
    simp only [List.getElem?_cons_zero, Option.some.injEq] at hx
    subst hx
    exact ⟨e, by simp, h.1⟩
  | e :: es, y :: xs, h, I + 1, x, hx => by
    simp only [TableOK] at h
    simp only [List.getElem?_cons_succ] at hx ⊢
    exact tableOK_get es xs h.2 I x hx
  | [], _ :: _, h, _, _, _ => by simp [TableOK] at h
  | _ :: _, [], h, _, _, _ => by simp [TableOK] at h

theorem tableOK_length : ∀ (es : List PInfo) (xs : List (InfoSt ℝ)), TableOK es xs →
    xs.length = es.length
  | [], [], _ => rfl
  | e :: es, y :: xs, h => by
    simp only [TableOK] at h
    simp [tableOK_length es xs h.2]
  | [], _ :: _, h => by simp [TableOK] at h
  | _ :: _, [], h => by simp [TableOK] at h

theorem tableOK_profile : ∀ (es : List PInfo) (xs : List (InfoSt ℝ)), TableOK es xs →
    IsStrat (xs.map (fun x => x.strat)) ∧
      (xs.map (fun x => x.strat)).map List.length = es.map (fun i => i.actions.length)
  | [], [], _ => by simp [IsStrat]
  | e :: es, x :: xs, h => by
    simp only [TableOK] at h
    obtain ⟨h1, h2⟩ := tableOK_profile es xs h.2
    constructor
    · intro v hv
      rcases List.mem_cons.mp hv with rfl | hv
      · exact h.1.dist
      · exact h1 v hv
    · simp only [List.map_cons, h.1.lenσ]
      rw [← h2]
  | [], _ :: _, h => by simp [TableOK] at h
  | _ :: _, [], h => by simp [TableOK] at h

theorem stOK_profile (g : Game ℝ) (s : SolveSt ℝ) (h : StOK g s) : ProfileOK g s.profile :=
  fun me => tableOK_profile _ _ (h me)

/-- an entry of the table of a well-formed state -/
theorem stOK_get (g : Game ℝ) (s : SolveSt ℝ) (h : StOK g s) (me : Bool) (I : ℕ) (x : InfoSt ℝ)
    (hx : (s.get me)[I]? = some x) :
    I < (g.infos me).length ∧ InfoOK (nActsOf g me I) x := by
  obtain ⟨e, he, hok⟩ := tableOK_get _ _ (h me) I x hx
  refine ⟨(List.getElem?_eq_some_iff.mp he).1, ?_⟩
  simpa [nActsOf, List.getD_eq_getElem?_getD, he] using hok

theorem stOK_length (g : Game ℝ) (s : SolveSt ℝ) (h : StOK g s) (me : Bool) :
    (s.get me).length = (g.infos me).length := tableOK_length _ _ (h me)

/-! ## the view of a well-formed game -/

/-- the game as `me` sees it when the profile `σ` is played -/
abbrev viewOf (g : Game ℝ) (σ : Profile ℝ) (me : Bool) : V ℝ := view g.chance (σ (!me)) me g.root

theorem view_ok (g : Game ℝ) (hg : GameWF g) (me : Bool) (σo : Strat ℝ) (h1 : IsStrat σo)
    (h2 : FitsGame g (!me) σo) :
    VOK (g.infos me).length (nActsOf g me) (view g.chance σo me g.root) :=
  view_VOK g (fun ps hps p hp => ((hg.chancePos ps hps).1 p hp).le) me σo h1 h2 g.root hg.nodes

theorem viewOf_ok (g : Game ℝ) (hg : GameWF g) (σ : Profile ℝ) (hσ : ProfileOK g σ) (me : Bool) :
    VOK (g.infos me).length (nActsOf g me) (viewOf g σ me) :=
  view_ok g hg me _ (hσ (!me)).1 (hσ (!me)).2

theorem profile_stratOK (g : Game ℝ) (σ : Profile ℝ) (hσ : ProfileOK g σ) (me : Bool) :
    StratOK (g.infos me).length (nActsOf g me) (σ me) :=
  (stratOK_iff g me (σ me)).mpr (hσ me)

/-! ## the invariant of the unsampled vanilla run -/

/-- after reading the profiles `σs` (latest first) every accumulator cell holds the sum of the
textbook quantities of those profiles -/
structure Inv (g : Game ℝ) (σs : List (Profile ℝ)) (s : SolveSt ℝ) : Prop where
  ok : StOK g s
  profs : ∀ σ ∈ σs, ProfileOK g σ
  reg : ∀ (me : Bool) (I : ℕ) (x : InfoSt ℝ), (s.get me)[I]? = some x → ∀ a, a < x.cumRegret.length →
    x.cumRegret.getD a 0 = (σs.map (fun σ => regAdd (σ me) I a (viewOf g σ me) 1)).sum
  str : ∀ (me : Bool) (I : ℕ) (x : InfoSt ℝ), (s.get me)[I]? = some x → ∀ a, a < x.cumStrat.length →
    x.cumStrat.getD a 0 = (σs.map (fun σ => stratAdd (σ me) I a (viewOf g σ me) 1)).sum

theorem inv_init (g : Game ℝ) (hg : GameWF g) : Inv g [] (SolveSt.init g) := by
  refine ⟨stOK_init g hg, by simp, ?_, ?_⟩
  · intro me I x hx a ha
    cases me <;>
      simp only [SolveSt.init, SolveSt.get, if_true, Bool.false_eq_true, if_false,
        List.getElem?_map] at hx <;>
      (obtain ⟨e, _, rfl⟩ := Option.map_eq_some_iff.mp hx
       simp only [InfoSt.new, List.getD_eq_getElem?_getD, List.getElem?_replicate, List.sum_nil,
         List.map_nil]
       split_ifs <;> rfl)
  · intro me I x hx a ha
    cases me <;>
      simp only [SolveSt.init, SolveSt.get, if_true, Bool.false_eq_true, if_false,
        List.getElem?_map] at hx <;>
      (obtain ⟨e, _, rfl⟩ := Option.map_eq_some_iff.mp hx
       simp only [InfoSt.new, List.getD_eq_getElem?_getD, List.getElem?_replicate, List.sum_nil,
         List.map_nil]
       split_ifs <;> rfl)

/-- the shape of one unsampled vanilla iteration with vanilla parameters -/
theorem vanillaIter_vanilla_eq (g : Game ℝ) (draw : DrawFn ℝ) (it : ℕ) (s : SolveSt ℝ)
    (log : List (DrawRec ℝ)) :
    vanillaIter g false RegretParams.vanilla draw it s log =
      (let r := vrec ⟨g.chance, false, s.strat, draw, it - 1⟩ g.root 1 1 1 { log := log }
       let s' := s.applyEffs r.2.1
       (⟨(s'.get true).map advV, (s'.get false).map advV⟩,
        boundSum it (s'.get true), boundSum it (s'.get false), r.2.2.log)) := by
  simp only [vanillaIter, advanceAll_vanilla, zero_add]
  rfl

theorem get_mk (a b : List (InfoSt ℝ)) (me : Bool) :
    (SolveSt.mk a b).get me = if me then a else b := rfl

/-- what an entry of the table after `applyEffs` and `advance` looks like -/
theorem applyEffs_advV_cell (s : SolveSt ℝ) (es : List (Eff ℝ)) (me : Bool) (I : ℕ) (x'' : InfoSt ℝ)
    (h : (((s.applyEffs es).get me).map advV)[I]? = some x'') :
    ∃ x, (s.get me)[I]? = some x ∧
      x''.cumRegret.length = x.cumRegret.length ∧ x''.cumStrat.length = x.cumStrat.length ∧
      (∀ a, a < x.cumRegret.length →
        x''.cumRegret.getD a 0 = x.cumRegret.getD a 0 + effSum es me I Slot.regret a) ∧
      (∀ a, a < x.cumStrat.length →
        x''.cumStrat.getD a 0 = x.cumStrat.getD a 0 + effSum es me I Slot.strat a) := by
  obtain ⟨hl, hc⟩ := applyEffs_cell s es me
  rw [List.getElem?_map] at h
  obtain ⟨x', hx', rfl⟩ := Option.map_eq_some_iff.mp h
  have hI : I < (s.get me).length := by
    rw [← hl]; exact (List.getElem?_eq_some_iff.mp hx').1
  obtain ⟨x2, g2, _, r2, t2, cr2, cs2⟩ := hc I _ (List.getElem?_eq_getElem hI)
  rw [hx'] at g2
  obtain rfl : x' = x2 := by simpa using g2
  exact ⟨_, List.getElem?_eq_getElem hI, r2, t2, cr2, cs2⟩

/-- **one iteration**: the invariant is extended by the profile the iteration read, and the
reported bounds are the sums of the per-infoset bounds of the new cumulative regrets -/
theorem vanillaIter_step (g : Game ℝ) (hg : GameWF g) (draw : DrawFn ℝ) (it : ℕ) (s : SolveSt ℝ)
    (log : List (DrawRec ℝ)) (σs : List (Profile ℝ)) (h : Inv g σs s) :
    Inv g (s.profile :: σs) (vanillaIter g false RegretParams.vanilla draw it s log).1 ∧
    (vanillaIter g false RegretParams.vanilla draw it s log).2.1
      = boundSum it ((vanillaIter g false RegretParams.vanilla draw it s log).1.get true) ∧
    (vanillaIter g false RegretParams.vanilla draw it s log).2.2.1
      = boundSum it ((vanillaIter g false RegretParams.vanilla draw it s log).1.get false) := by
  have hok' := (vanillaIter_ok g false RegretParams.vanilla (le_refl (0 : ℝ)) draw it s log h.ok).1
  have hσ : ProfileOK g s.profile := stOK_profile g s h.ok
  rw [vanillaIter_vanilla_eq] at hok' ⊢
  simp only [] at hok' ⊢
  have hctx := ctxOf_profile g s false draw (it - 1)
  generalize hcd : (⟨g.chance, false, s.strat, draw, it - 1⟩ : VCtx ℝ) = c at hctx hok' ⊢
  have hch : c.ch = g.chance := by rw [← hcd]
  have hsm : c.sampled = false := by rw [← hcd]
  refine ⟨⟨hok', ?_, ?_, ?_⟩, ?_, ?_⟩
  · intro σ hm
    rcases List.mem_cons.mp hm with rfl | hm
    · exact hσ
    · exact h.profs σ hm
  · intro me I x'' hx'' a ha
    have hx2 : (((s.applyEffs (vrec c g.root 1 1 1 { log := log }).2.1).get me).map advV)[I]?
        = some x'' := by
      cases me <;> exact hx''
    obtain ⟨x, hx, r2, _, cr2, _⟩ := applyEffs_advV_cell s _ me I x'' hx2
    obtain ⟨hI, hinfo⟩ := stOK_get g s h.ok me I x hx
    rw [r2] at ha
    have hat := profile_at s me I x hx
    have hreg := vrec_full_regret c hsm s.profile hctx me g.root 1 1 1 { log := log } I a
      (by rw [hat, hinfo.lenσ, ← hinfo.lenR]; exact ha)
      (by
        rw [hch]
        exact VOK.ownFits _ _ _ (profile_stratOK g _ hσ me).2.1 _ (viewOf_ok g hg _ hσ me))
    rw [cr2 a ha, hreg, h.reg me I x hx a ha, hch, List.map_cons, List.sum_cons]
    have e1 : (1 : ℝ) * (if me = true then 1 else 1) = 1 := by simp
    rw [e1, add_comm]
  · intro me I x'' hx'' a ha
    have hx2 : (((s.applyEffs (vrec c g.root 1 1 1 { log := log }).2.1).get me).map advV)[I]?
        = some x'' := by
      cases me <;> exact hx''
    obtain ⟨x, hx, _, t2, _, cs2⟩ := applyEffs_advV_cell s _ me I x'' hx2
    rw [t2] at ha
    have hstr := vrec_full_strat c hsm s.profile hctx me g.root 1 1 1 { log := log } I a
      (by
        rw [hch]
        exact VOK.natFits _ _ _ (viewOf_ok g hg _ hσ me))
    rw [cs2 a ha, hstr, h.str me I x hx a ha, hch, List.map_cons, List.sum_cons]
    have e1 : (if me = true then (1 : ℝ) else 1) = 1 := by simp
    rw [e1, add_comm]
  · exact (boundSum_advV _ _).symm
  · exact (boundSum_advV _ _).symm

/-! ## the loop -/

/-- what a finished run returns: the averages and the bounds of a state that satisfies the
invariant for a non-empty list of profiles -/
def Final (g : Game ℝ) (o : SolveOut ℝ) : Prop :=
  ∃ (σs : List (Profile ℝ)) (s : SolveSt ℝ), σs ≠ [] ∧ Inv g σs s ∧
    o.regOne = .fin (boundSum σs.length (s.get true)) ∧
    o.regTwo = .fin (boundSum σs.length (s.get false)) ∧
    o.stratOne = s.avg true ∧ o.stratTwo = s.avg false

theorem loop_final (g : Game ℝ) (hg : GameWF g) (draw : DrawFn ℝ) (thr : Option (Ext ℝ)) :
    ∀ (n it : ℕ) (s : SolveSt ℝ) (r1 r2 : Ext ℝ) (log : List (DrawRec ℝ))
      (σs : List (Profile ℝ)), σs.length + 1 = it → Inv g σs s →
      (σs ≠ [] → r1 = .fin (boundSum σs.length (s.get true)) ∧
        r2 = .fin (boundSum σs.length (s.get false))) →
      (0 < n ∨ σs ≠ []) →
      Final g (solveLoop (vanillaIter g false RegretParams.vanilla draw) thr n it s r1 r2 log) := by
  intro n
  induction n with
  | zero =>
    intro it s r1 r2 log σs hit hinv hr hne
    have hne' : σs ≠ [] := by
      rcases hne with h | h
      · exact absurd h (lt_irrefl 0)
      · exact h
    obtain ⟨e1, e2⟩ := hr hne'
    simp only [solveLoop]
    exact ⟨σs, s, hne', hinv, e1, e2, rfl, rfl⟩
  | succ n ih =>
    intro it s r1 r2 log σs hit hinv hr _
    obtain ⟨hinv', b1, b2⟩ := vanillaIter_step g hg draw it s log σs hinv
    have hlen : (s.profile :: σs).length = it := by simp [hit]
    rw [wf_solveLoop_succ]
    split_ifs with hb
    · refine ⟨s.profile :: σs, _, by simp, hinv', ?_, ?_, rfl, rfl⟩
      · rw [hlen]; exact congrArg Ext.fin b1
      · rw [hlen]; exact congrArg Ext.fin b2
    · exact ih (it + 1) _ _ _ _ (s.profile :: σs) (by simp [hit]) hinv'
        (fun _ => ⟨by rw [hlen]; exact congrArg Ext.fin b1, by rw [hlen]; exact congrArg Ext.fin b2⟩)
        (Or.inr (by simp))

/-- every unsampled vanilla solve with a positive budget ends in a `Final` state -/
theorem solve_final (g : Game ℝ) (hg : GameWF g) (draw : DrawFn ℝ) (T : ℕ) (hT : 0 < T)
    (thr : Option (Ext ℝ)) :
    Final g (solveVanillaSingle g false RegretParams.vanilla draw T thr) := by
  unfold solveVanillaSingle solveWith
  exact loop_final g hg draw thr T 1 _ _ _ _ [] rfl (inv_init g hg) (fun h => absurd rfl h)
    (Or.inl hT)

/-! ## sums over the list of iterates -/

theorem lmsum_add {β : Type} (l : List β) (f g : β → ℝ) :
    (l.map (fun x => f x + g x)).sum = (l.map f).sum + (l.map g).sum := by
  induction l with
  | nil => simp
  | cons x l ih => simp only [List.map_cons, List.sum_cons, ih]; ring

theorem lmsum_sub {β : Type} (l : List β) (f g : β → ℝ) :
    (l.map (fun x => f x - g x)).sum = (l.map f).sum - (l.map g).sum := by
  induction l with
  | nil => simp
  | cons x l ih => simp only [List.map_cons, List.sum_cons, ih]; ring

theorem lmsum_neg {β : Type} (l : List β) (f : β → ℝ) :
    (l.map (fun x => - f x)).sum = - (l.map f).sum := by
  induction l with
  | nil => simp
  | cons x l ih => simp only [List.map_cons, List.sum_cons, ih]; ring

theorem lmsum_mul_left {β : Type} (l : List β) (c : ℝ) (f : β → ℝ) :
    (l.map (fun x => c * f x)).sum = c * (l.map f).sum := by
  induction l with
  | nil => simp
  | cons x l ih => simp only [List.map_cons, List.sum_cons, ih]; ring

theorem lmsum_congr {β : Type} (l : List β) (f g : β → ℝ) (h : ∀ x ∈ l, f x = g x) :
    (l.map f).sum = (l.map g).sum := by
  rw [List.map_congr_left h]

theorem lmsum_wsum {β : Type} (N : ℕ) (nActs : ℕ → ℕ) (hist : ℕ → Hist) (τ : Strat ℝ)
    (l : List β) (F : β → ℕ → ℕ → ℝ) :
    (l.map (fun x => wsum N nActs hist τ (F x))).sum
      = wsum N nActs hist τ (fun I a => (l.map (fun x => F x I a)).sum) := by
  induction l with
  | nil => simp [wsum_zero]
  | cons x l ih =>
    simp only [List.map_cons, List.sum_cons, ih]
    rw [← wsum_add]

theorem lmsum_range {β : Type} (n : ℕ) (l : List β) (F : β → ℕ → ℝ) :
    ∑ a ∈ Finset.range n, (l.map (fun x => F x a)).sum
      = (l.map (fun x => ∑ a ∈ Finset.range n, F x a)).sum := by
  induction l with
  | nil => simp
  | cons x l ih =>
    simp only [List.map_cons, List.sum_cons, Finset.sum_add_distrib, ih]

theorem wsum_congr (N : ℕ) (nActs : ℕ → ℕ) (hist : ℕ → Hist) (τ : Strat ℝ) (f g : ℕ → ℕ → ℝ)
    (h : ∀ I, I < N → ∀ a, a < nActs I → f I a = g I a) :
    wsum N nActs hist τ f = wsum N nActs hist τ g := by
  unfold wsum
  apply Finset.sum_congr rfl
  intro I hI
  congr 1
  apply Finset.sum_congr rfl
  intro a ha
  rw [h I (Finset.mem_range.mp hI) a (Finset.mem_range.mp ha)]

theorem sum_range_map_getD {β : Type} (d : β) (F : β → ℝ) : ∀ (l : List β),
    ∑ i ∈ Finset.range l.length, F (l.getD i d) = (l.map F).sum
  | [] => by simp
  | x :: l => by
    have ih := sum_range_map_getD d F l
    simp only [List.length_cons, List.map_cons, List.sum_cons]
    rw [Finset.sum_range_succ', ← ih]
    simp [add_comm]

/-! ## the regret side -/

/-- the cumulative regret vector of infoset `I` in a table -/
def crOf (xs : List (InfoSt ℝ)) (I : ℕ) : List ℝ := (xs.map (fun x => x.cumRegret)).getD I []

theorem crOf_get (xs : List (InfoSt ℝ)) (I : ℕ) (x : InfoSt ℝ) (hx : xs[I]? = some x) :
    crOf xs I = x.cumRegret := by
  simp [crOf, List.getD_eq_getElem?_getD, List.getElem?_map, hx]

/-- `Σ_I max(max_a R(I,a), 0)` -/
def clampSum (xs : List (InfoSt ℝ)) : ℝ := (xs.map (fun x => fmax (maxD 0 x.cumRegret) 0)).sum

theorem boundSum_eq (it : ℕ) (xs : List (InfoSt ℝ)) :
    boundSum it xs = 2 / (it : ℝ) * clampSum xs := by
  unfold boundSum clampSum
  rw [← lmsum_mul_left]
  apply lmsum_congr
  intro x _
  simp only [cumRegretBound, two]
  ring

theorem clampSum_eq_range (xs : List (InfoSt ℝ)) :
    clampSum xs = ∑ I ∈ Finset.range xs.length, fmax (maxD 0 (crOf xs I)) 0 := by
  have := sum_range_map_getD ([] : List ℝ) (fun R => fmax (maxD 0 R) 0)
    (xs.map (fun x => x.cumRegret))
  simp only [List.length_map, List.map_map] at this
  unfold clampSum crOf
  rw [this]
  rfl

/-- **regret side**: the summed gain of any valid own strategy over the iterates is at most
the sum of the clamped maxima of the cumulative regrets -/
theorem regret_side (g : Game ℝ) (hg : GameWF g) (σs : List (Profile ℝ)) (s : SolveSt ℝ)
    (h : Inv g σs s) (me : Bool) (τ : Strat ℝ) (hτ1 : IsStrat τ) (hτ2 : FitsGame g me τ) :
    (σs.map (fun σ => evV τ (viewOf g σ me) - evV (σ me) (viewOf g σ me))).sum
      ≤ clampSum (s.get me) := by
  obtain ⟨hist, hpr, _⟩ := hg.recall me
  have hτ : StratOK (g.infos me).length (nActsOf g me) τ := (stratOK_iff g me τ).mpr ⟨hτ1, hτ2⟩
  have hlen := stOK_length g s h.ok me
  -- step 1: performance-difference decomposition, iterate by iterate
  have e1 : (σs.map (fun σ => evV τ (viewOf g σ me) - evV (σ me) (viewOf g σ me))).sum
      = (σs.map (fun σ => wsum (g.infos me).length (nActsOf g me) hist τ
          (fun I a => regAdd (σ me) I a (viewOf g σ me) 1))).sum := by
    apply lmsum_congr
    intro σ hσ
    exact perf_decomp _ _ hist τ (σ me) hτ _ (viewOf_ok g hg σ (h.profs σ hσ) me)
      (view_PRV g.chance _ me hist g.root [] hpr)
  -- step 2/3: exchange the sums, read the accumulators
  have e2 : wsum (g.infos me).length (nActsOf g me) hist τ
        (fun I a => (σs.map (fun σ => regAdd (σ me) I a (viewOf g σ me) 1)).sum)
      = wsum (g.infos me).length (nActsOf g me) hist τ
        (fun I a => (crOf (s.get me) I).getD a 0) := by
    apply wsum_congr
    intro I hI a ha
    have hI' : I < (s.get me).length := by rw [hlen]; exact hI
    have hx := List.getElem?_eq_getElem hI'
    obtain ⟨_, hinfo⟩ := stOK_get g s h.ok me I _ hx
    rw [crOf_get _ _ _ hx, h.reg me I _ hx a (by rw [hinfo.lenR]; exact ha)]
  rw [e1, lmsum_wsum, e2, clampSum_eq_range, hlen]
  unfold wsum
  apply Finset.sum_le_sum
  intro I hI
  have hI := Finset.mem_range.mp hI
  have hI' : I < (s.get me).length := by rw [hlen]; exact hI
  have hx := List.getElem?_eq_getElem hI'
  obtain ⟨_, hinfo⟩ := stOK_get g s h.ok me I _ hx
  have hcl : (crOf (s.get me) I).length = nActsOf g me I := by
    rw [crOf_get _ _ _ hx]; exact hinfo.lenR
  have hτl : (τ.at I).length = (crOf (s.get me) I).length := by rw [hcl]; exact hτ.2.1 I hI
  have hdist : IsDist (τ.at I) := hτ.2.2 _ (at_mem (by rw [hτ.1]; exact hI))
  have e3 : ∑ a ∈ Finset.range (nActsOf g me I), (τ.at I).getD a 0 * (crOf (s.get me) I).getD a 0
      = dot (τ.at I) (crOf (s.get me) I) := by
    rw [← hcl]; exact sum_range_dot _ _ hτl
  rw [e3]
  have h0 := histW_nonneg hτ.2.2 (hist I)
  have h1 := histW_le_one hτ.2.2 (hist I)
  have hd := dot_le_clamped_max (τ.at I) (crOf (s.get me) I) hdist hτl
  have hM : 0 ≤ fmax (maxD 0 (crOf (s.get me) I)) 0 := by
    rw [fmax_eq_max]; exact le_max_right _ _
  calc histW τ (hist I) * dot (τ.at I) (crOf (s.get me) I)
      ≤ histW τ (hist I) * fmax (maxD 0 (crOf (s.get me) I)) 0 :=
        mul_le_mul_of_nonneg_left hd h0
    _ ≤ 1 * fmax (maxD 0 (crOf (s.get me) I)) 0 := mul_le_mul_of_nonneg_right h1 hM
    _ = fmax (maxD 0 (crOf (s.get me) I)) 0 := one_mul _

/-! ## the average side -/

theorem evV_view_swap (ch : List (List ℝ)) (x τ : Strat ℝ) (me : Bool) (n : Node ℝ) :
    evV x (view ch τ (!me) n) = - evV τ (view ch x me n) := by
  cases me
  · rw [evV_view_neg ch x τ n]; simp
  · exact evV_view_neg ch τ x n

theorem tsum_map {β : Type} (l : List β) (f : β → Strat ℝ) (F : Strat ℝ → ℝ) :
    tsum (l.map f) F = (l.map (fun x => F (f x))).sum := by
  simp [tsum, List.map_map, Function.comp_def]

theorem avg_at_entry (c W A S x : ℝ) (hc : c ≠ 0) (hS : S = c * W) (hx : x = c * A)
    (h0 : S = 0 → x = 0) : (if S = 0 then (0 : ℝ) else x / S) * W = A ∨ (S = 0 ∧ W = 0 ∧ A = 0) := by
  by_cases h : S = 0
  · right
    have hW : W = 0 := by
      rw [h] at hS
      rcases mul_eq_zero.mp hS.symm with h' | h'
      · exact absurd h' hc
      · exact h'
    have hA : A = 0 := by
      have := h0 h
      rw [this] at hx
      rcases mul_eq_zero.mp hx.symm with h' | h'
      · exact absurd h' hc
      · exact h'
    exact ⟨h, hW, hA⟩
  · left
    rw [if_neg h, hx, hS]
    have hW : W ≠ 0 := by
      intro hW; apply h; rw [hS, hW, mul_zero]
    field_simp

/-- **the returned average strategy is the reach-weighted average of the iterates** at every
infoset that occurs in the tree -/
theorem avg_at (g : Game ℝ) (hg : GameWF g) (σs : List (Profile ℝ)) (s : SolveSt ℝ)
    (h : Inv g σs s) (p : Bool) (hist : ℕ → Hist) (hpr : PR p hist [] g.root) (τ : Strat ℝ) (I : ℕ)
    (hI : 0 < cntInfo I (view g.chance τ p g.root)) :
    AvgAt (g.infos p).length (nActsOf g p) hist (σs.map (fun σ => σ p)) (s.avg p) I := by
  have hlen := stOK_length g s h.ok p
  by_cases hIN : I < (g.infos p).length
  · have hI' : I < (s.get p).length := by rw [hlen]; exact hIN
    have hx := List.getElem?_eq_getElem hI'
    obtain ⟨_, hinfo⟩ := stOK_get g s h.ok p I _ hx
    generalize (s.get p)[I] = x at hx hinfo
    have hat : Strat.at (s.avg p) I = avgStrat x.cumStrat := by
      simp [SolveSt.avg, Strat.at, List.getD_eq_getElem?_getD, List.getElem?_map, hx]
    obtain ⟨_, hal⟩ := avgStrat_isDist x.cumStrat (by rw [hinfo.lenS]; exact hinfo.pos) hinfo.nonneg
    rw [AvgAt, hat]
    refine ⟨by rw [hal, hinfo.lenS], ?_⟩
    intro a ha
    -- the accumulator in closed form
    set c : ℝ := (cntInfo I (view g.chance τ p g.root) : ℝ) with hc
    have hcpos : c ≠ 0 := by
      have : (0 : ℝ) < c := by rw [hc]; exact_mod_cast hI
      exact this.ne'
    have key : ∀ b, b < nActsOf g p I → x.cumStrat.getD b 0
        = c * tsum (σs.map (fun σ => σ p)) (fun σ => histW σ (hist I) * (σ.at I).getD b 0) := by
      intro b hb
      rw [h.str p I x hx b (by rw [hinfo.lenS]; exact hb), tsum_map, ← lmsum_mul_left]
      apply lmsum_congr
      intro σ hσ
      have := stratAdd_eq (g.infos p).length (nActsOf g p) hist (σ p) I b (viewOf g σ p) []
        (viewOf_ok g hg σ (h.profs σ hσ) p) (view_PRV g.chance _ p hist g.root [] hpr)
      rw [histW_nil] at this
      rw [this, cntInfo_view g.chance (σ (!p)) τ p I g.root]
    have hsumA : ∑ b ∈ Finset.range (nActsOf g p I),
        tsum (σs.map (fun σ => σ p)) (fun σ => histW σ (hist I) * (σ.at I).getD b 0)
        = tsum (σs.map (fun σ => σ p)) (fun σ => histW σ (hist I)) := by
      simp only [tsum_map]
      rw [lmsum_range]
      apply lmsum_congr
      intro σ hσ
      have hs := profile_stratOK g σ (h.profs σ hσ) p
      have h1 : ((σ p).at I).length = nActsOf g p I := hs.2.1 I hIN
      have h2 : ((σ p).at I).sum = 1 := (hs.2.2 _ (at_mem (by rw [hs.1]; exact hIN))).2
      rw [← Finset.mul_sum, ← h1, sum_range_getD, h2, mul_one]
    have hS : x.cumStrat.sum
        = c * tsum (σs.map (fun σ => σ p)) (fun σ => histW σ (hist I)) := by
      rw [← sum_range_getD, hinfo.lenS, ← hsumA, Finset.mul_sum]
      apply Finset.sum_congr rfl
      intro b hb
      exact key b (Finset.mem_range.mp hb)
    have ha' : a < x.cumStrat.length := by rw [hinfo.lenS]; exact ha
    have hmem : x.cumStrat.getD a 0 ∈ x.cumStrat := by
      rw [List.getD_eq_getElem?_getD, List.getElem?_eq_getElem ha']
      exact List.getElem_mem ha'
    have h0 : x.cumStrat.sum = 0 → x.cumStrat.getD a 0 = 0 := by
      intro hz
      have h1 := mem_le_sum _ hinfo.nonneg _ hmem
      have h2 := hinfo.nonneg _ hmem
      rw [hz] at h1
      exact le_antisymm h1 h2
    have hentry : (avgStrat x.cumStrat).getD a 0
        = if x.cumStrat.sum = 0 then 1 / (x.cumStrat.length : ℝ) else x.cumStrat.getD a 0 / x.cumStrat.sum := by
      simp only [avgStrat, lsum_eq_sum]
      split_ifs with h1 h2 h2
      · simp [List.getD_eq_getElem?_getD, ha']
      · exact absurd (by simpa using h1) h2
      · exact absurd (by simpa using h2) h1
      · simp [List.getD_eq_getElem?_getD, List.getElem?_map, List.getElem?_eq_getElem ha']
    rcases avg_at_entry c _ _ _ _ hcpos hS (key a ha) h0 with hh | ⟨z1, z2, z3⟩
    · rw [hentry]
      by_cases hz : x.cumStrat.sum = 0
      · rw [if_pos hz] at hh ⊢
        rw [zero_mul] at hh
        have hW : tsum (σs.map (fun σ => σ p)) (fun σ => histW σ (hist I)) = 0 := by
          rw [hz] at hS
          rcases mul_eq_zero.mp hS.symm with h' | h'
          · exact absurd h' hcpos
          · exact h'
        rw [hW, mul_zero]; exact hh
      · rw [if_neg hz] at hh ⊢
        exact hh
    · rw [z2, z3, mul_zero]
  · have hge : (g.infos p).length ≤ I := not_lt.mp hIN
    have hat : Strat.at (s.avg p) I = [] := by
      simp [SolveSt.avg, Strat.at, List.getD_eq_getElem?_getD, hlen, hge]
    have hn : nActsOf g p I = 0 := by
      simp [nActsOf, List.getD_eq_getElem?_getD, hge]
      rfl
    rw [AvgAt, hat, hn]
    exact ⟨rfl, fun a ha => absurd ha (Nat.not_lt_zero a)⟩

/-- **average side**: against the returned average strategy of the opponent, every strategy `τ`
earns the mean of what it earns against the opponent's iterates -/
theorem avg_side (g : Game ℝ) (hg : GameWF g) (σs : List (Profile ℝ)) (s : SolveSt ℝ)
    (h : Inv g σs s) (me : Bool) (τ : Strat ℝ) (hτ1 : IsStrat τ) (hτ2 : FitsGame g me τ) :
    (σs.map (fun σ => evV τ (viewOf g σ me))).sum
      = (σs.length : ℝ) * evV τ (view g.chance (s.avg (!me)) me g.root) := by
  obtain ⟨hist, hpr, _⟩ := hg.recall (!me)
  have hτ2' : FitsGame g (!(!me)) τ := by rwa [Bool.not_not]
  have hok := view_ok g hg (!me) τ hτ1 hτ2'
  have hprv := view_PRV g.chance τ (!me) hist g.root [] hpr
  have hσs : ∀ σ ∈ σs.map (fun σ => σ (!me)),
      StratOK (g.infos (!me)).length (nActsOf g (!me)) σ := by
    intro σ hσ
    obtain ⟨σ', hm, rfl⟩ := List.mem_map.mp hσ
    exact profile_stratOK g σ' (h.profs σ' hm) (!me)
  have := avg_realisation _ _ hist (σs.map (fun σ => σ (!me))) hσs (s.avg (!me)) _ hok hprv
    (fun I hI => avg_at g hg σs s h (!me) hist hpr τ I hI)
  rw [tsum_map, List.length_map] at this
  have e : (σs.map (fun σ => evV (σ (!me)) (view g.chance τ (!me) g.root))).sum
      = - (σs.map (fun σ => evV τ (viewOf g σ me))).sum := by
    rw [← lmsum_neg]
    apply lmsum_congr
    intro σ _
    exact evV_view_swap g.chance (σ (!me)) τ me g.root
  rw [e, evV_view_swap] at this
  linarith

/-! ## the zero-sum sandwich -/

/-- for each player: `T` times the best-response value against the opponent's returned average
is at most the summed utility of the iterates plus `T/2` times the reported bound -/
theorem br_le (g : Game ℝ) (hg : GameWF g) (σs : List (Profile ℝ)) (s : SolveSt ℝ)
    (hne : σs ≠ []) (h : Inv g σs s) (me : Bool) :
    (σs.length : ℝ) * optimalDeviations g me (s.avg (!me))
      ≤ (σs.map (fun σ => evV (σ me) (viewOf g σ me))).sum
        + (σs.length : ℝ) / 2 * boundSum σs.length (s.get me) := by
  have hσb : ProfileOK g s.avg := fun p => stOK_avg g s h.ok p
  obtain ⟨τ, t1, t2, e⟩ := (eval_best_response g hg s.avg hσb me).1
  rw [utility_deviate g hg s.avg hσb me τ t1 t2] at e
  have hT : (0 : ℝ) < (σs.length : ℝ) := by
    have : 0 < σs.length := List.length_pos_iff.mpr hne
    exact_mod_cast this
  have a1 := avg_side g hg σs s h me τ t1 t2
  have a2 := regret_side g hg σs s h me τ t1 t2
  rw [lmsum_sub, a1] at a2
  have a3 : clampSum (s.get me) = (σs.length : ℝ) / 2 * boundSum σs.length (s.get me) := by
    rw [boundSum_eq]; field_simp
  rw [e]
  linarith

/-- **the bound dominates the true regret** of the returned profile -/
theorem bound_dominates (g : Game ℝ) (hg : GameWF g) (σs : List (Profile ℝ)) (s : SolveSt ℝ)
    (hne : σs ≠ []) (h : Inv g σs s) :
    (getInfo g s.avg).regret
      ≤ max (boundSum σs.length (s.get true)) (boundSum σs.length (s.get false)) := by
  have hσb : ProfileOK g s.avg := fun p => stOK_avg g s h.ok p
  have hT : (0 : ℝ) < (σs.length : ℝ) := by
    have : 0 < σs.length := List.length_pos_iff.mpr hne
    exact_mod_cast this
  have b1 := br_le g hg σs s hne h true
  have b2 := br_le g hg σs s hne h false
  have hU : (σs.map (fun σ => evV (σ false) (viewOf g σ false))).sum
      = - (σs.map (fun σ => evV (σ true) (viewOf g σ true))).sum := by
    rw [← lmsum_neg]
    apply lmsum_congr
    intro σ _
    exact evV_view_neg g.chance (σ true) (σ false) g.root
  rw [hU] at b2
  have n1 := boundSum_nonneg σs.length (s.get true)
  have n2 := boundSum_nonneg σs.length (s.get false)
  have u1 := best_response_ge_utility g hg s.avg hσb true
  have u2 := best_response_ge_utility g hg s.avg hσb false
  have hu : utility g s.avg false = - utility g s.avg true := by simp [utility]
  rw [hu] at u2
  set B1 := optimalDeviations g true (s.avg (!true)) with hB1
  set B2 := optimalDeviations g false (s.avg (!false)) with hB2
  set c1 := boundSum σs.length (s.get true) with hc1
  set c2 := boundSum σs.length (s.get false) with hc2
  set u := utility g s.avg true with hu'
  set U := (σs.map (fun σ => evV (σ true) (viewOf g σ true))).sum with hUU
  set T := (σs.length : ℝ) with hTT
  have hsum : B1 + B2 ≤ (c1 + c2) / 2 := by
    have : T * (B1 + B2) ≤ T * ((c1 + c2) / 2) := by nlinarith
    exact le_of_mul_le_mul_left this hT
  have hmax : (c1 + c2) / 2 ≤ max c1 c2 := by
    have := le_max_left c1 c2
    have := le_max_right c1 c2
    linarith
  rw [eval_total_regret, eval_regret, eval_regret, hu]
  have h0 : 0 ≤ max c1 c2 := le_trans n1 (le_max_left _ _)
  refine max_le (max_le ?_ h0) (max_le ?_ h0) <;> linarith

end
end Cfr
