import CfrVerif.Proofs.WellFormed
import CfrVerif.Proofs.GameWF
/-!
# No decision infoset occurs twice on a root-to-leaf path (from perfect recall)
(re-exported by `Props/C05.lean`; the borrow held across `recurse_single` relies on it)
-/
set_option linter.unusedSectionVars false
namespace Cfr

mutual
/-- no decision infoset of either player occurs twice on a root-to-leaf path -/
def NoRepeat : List (Bool × Nat) → Node ℝ → Prop
  | _, .term _ => True
  | seen, .chance _ ks => NoRepeatL seen ks
  | seen, .player one i ks => (one, i) ∉ seen ∧ NoRepeatL ((one, i) :: seen) ks
def NoRepeatL : List (Bool × Nat) → List (Node ℝ) → Prop
  | _, [] => True
  | seen, k :: ks => NoRepeat seen k ∧ NoRepeatL seen ks
end

mutual
theorem noRepeat_of_PR (h1 h2 : ℕ → Hist) :
    ∀ (n : Node ℝ) (seen : List (Bool × ℕ)) (H1 H2 : Hist), PR true h1 H1 n → PR false h2 H2 n →
      SeenOK h1 h2 seen H1.length H2.length → NoRepeat seen n
  | .term _, _, _, _, _, _, _ => by simp only [NoRepeat]
  | .chance _ ks, seen, H1, H2, p1, p2, hs => by
    simp only [PR] at p1 p2
    simp only [NoRepeat]
    exact noRepeatL_of_PRL h1 h2 ks seen H1 H2 p1 p2 hs
  | .player true i ks, seen, H1, H2, p1, p2, hs => by
    simp only [PR, if_true, Bool.true_eq_false, if_false] at p1 p2
    simp only [NoRepeat]
    have hi : (h1 i).length = H1.length := by rw [p1.1]
    exact ⟨hs.not_mem_true i hi,
      noRepeatL_of_PRD_true h1 h2 ks _ H1 H2 i 0 p1.2 p2 (hs.cons_true i hi)⟩
  | .player false i ks, seen, H1, H2, p1, p2, hs => by
    simp only [PR, if_true, Bool.false_eq_true, if_false] at p1 p2
    simp only [NoRepeat]
    have hi : (h2 i).length = H2.length := by rw [p2.1]
    exact ⟨hs.not_mem_false i hi,
      noRepeatL_of_PRD_false h1 h2 ks _ H1 H2 i 0 p1 p2.2 (hs.cons_false i hi)⟩
theorem noRepeatL_of_PRL (h1 h2 : ℕ → Hist) :
    ∀ (ks : List (Node ℝ)) (seen : List (Bool × ℕ)) (H1 H2 : Hist), PRL true h1 H1 ks →
      PRL false h2 H2 ks → SeenOK h1 h2 seen H1.length H2.length → NoRepeatL seen ks
  | [], _, _, _, _, _, _ => by simp only [NoRepeatL]
  | k :: ks, seen, H1, H2, p1, p2, hs => by
    simp only [PRL] at p1 p2
    simp only [NoRepeatL]
    exact ⟨noRepeat_of_PR h1 h2 k seen H1 H2 p1.1 p2.1 hs,
      noRepeatL_of_PRL h1 h2 ks seen H1 H2 p1.2 p2.2 hs⟩
theorem noRepeatL_of_PRD_true (h1 h2 : ℕ → Hist) :
    ∀ (ks : List (Node ℝ)) (seen : List (Bool × ℕ)) (H1 H2 : Hist) (i a : ℕ),
      PRD true h1 H1 i a ks → PRL false h2 H2 ks →
      SeenOK h1 h2 seen (H1.length + 1) H2.length → NoRepeatL seen ks
  | [], _, _, _, _, _, _, _, _ => by simp only [NoRepeatL]
  | k :: ks, seen, H1, H2, i, a, p1, p2, hs => by
    simp only [PRD] at p1
    simp only [PRL] at p2
    simp only [NoRepeatL]
    refine ⟨noRepeat_of_PR h1 h2 k seen (H1 ++ [(i, a)]) H2 p1.1 p2.1 (by simpa using hs),
      noRepeatL_of_PRD_true h1 h2 ks seen H1 H2 i (a + 1) p1.2 p2.2 hs⟩
theorem noRepeatL_of_PRD_false (h1 h2 : ℕ → Hist) :
    ∀ (ks : List (Node ℝ)) (seen : List (Bool × ℕ)) (H1 H2 : Hist) (i a : ℕ),
      PRL true h1 H1 ks → PRD false h2 H2 i a ks →
      SeenOK h1 h2 seen H1.length (H2.length + 1) → NoRepeatL seen ks
  | [], _, _, _, _, _, _, _, _ => by simp only [NoRepeatL]
  | k :: ks, seen, H1, H2, i, a, p1, p2, hs => by
    simp only [PRD] at p2
    simp only [PRL] at p1
    simp only [NoRepeatL]
    refine ⟨noRepeat_of_PR h1 h2 k seen H1 (H2 ++ [(i, a)]) p1.1 p2.1 (by simpa using hs),
      noRepeatL_of_PRD_false h1 h2 ks seen H1 H2 i (a + 1) p1.2 p2.2 hs⟩
end

/-- perfect recall excludes a repeated infoset on a path, so the mutable borrow of an infoset
held across the recursion of `recurse_single` is never taken twice -/
theorem wf_no_infoset_twice_on_path (g : Game ℝ) (hg : GameWF g) : NoRepeat [] g.root := by
  obtain ⟨h1, p1, -⟩ := hg.recall true
  obtain ⟨h2, p2, -⟩ := hg.recall false
  exact noRepeat_of_PR h1 h2 g.root [] [] [] p1 p2 (SeenOK.nil h1 h2 _ _)

end Cfr
