import CfrVerif.Proofs.RatePotential
/-!
# Tree-level facts used by the rate proofs

* `Has me I n` : the subtree `n` contains a decision node of infoset `I` of player `me`;
* `GoodR me I n` : what perfect recall gives for the pair `(me, I)`: below an own node of `I` there
  is no further node of `I`; below an own node of another infoset at most one child contains
  nodes of `I` (`Uniq`);
* `TFit ch st n` : the chance tables and current strategies fit the tree (lengths, distributions);
  it follows from `GameWF`, `StOK` and `NodeOK`.
-/
set_option linter.unusedSectionVars false
namespace Cfr

mutual
/-- the subtree contains a decision node of infoset `I` of player `me` -/
def Has (me : Bool) (I : ℕ) : Node ℝ → Prop
  | .term _ => False
  | .chance _ ks => HasL me I ks
  | .player one i ks => (one = me ∧ i = I) ∨ HasL me I ks
def HasL (me : Bool) (I : ℕ) : List (Node ℝ) → Prop
  | [] => False
  | k :: ks => Has me I k ∨ HasL me I ks
end

/-- at most one of the subtrees contains a node of `(me, I)` -/
def Uniq (me : Bool) (I : ℕ) : List (Node ℝ) → Prop
  | [] => True
  | k :: ks => (Has me I k → ¬ HasL me I ks) ∧ Uniq me I ks

mutual
def GoodR (me : Bool) (I : ℕ) : Node ℝ → Prop
  | .term _ => True
  | .chance _ ks => GoodL me I ks
  | .player one i ks =>
    GoodL me I ks ∧ (one = me → (i = I → ¬ HasL me I ks) ∧ (i ≠ I → Uniq me I ks))
def GoodL (me : Bool) (I : ℕ) : List (Node ℝ) → Prop
  | [] => True
  | k :: ks => GoodR me I k ∧ GoodL me I ks
end

theorem prefix_snoc_inj' {β : Type} {H l : List β} {x y : β} (h1 : (H ++ [x]) <+: l)
    (h2 : (H ++ [y]) <+: l) : x = y := by
  rw [List.prefix_iff_eq_take] at h1 h2
  have hl : (H ++ [x]).length = (H ++ [y]).length := by simp
  rw [hl, ← h2] at h1
  simpa using h1

mutual
theorem has_prefix (me : Bool) (hist : ℕ → Hist) (I : ℕ) :
    ∀ (n : Node ℝ) (H : Hist), PR me hist H n → Has me I n → H <+: hist I
  | .term _, _, _, h => by simp [Has] at h
  | .chance _ ks, H, hp, h =>
    hasL_prefix me hist I ks H (by simpa [PR] using hp) (by simpa [Has] using h)
  | .player one i ks, H, hp, h => by
    by_cases ho : one = me
    · obtain ⟨hH, hD⟩ := (by simpa [PR, ho] using hp : hist i = H ∧ PRD me hist H i 0 ks)
      rcases (by simpa [Has] using h : (one = me ∧ i = I) ∨ HasL me I ks) with ⟨_, rfl⟩ | hk
      · rw [hH]
      · obtain ⟨b, _, hb⟩ := hasD_prefix me hist I ks H i 0 hD hk
        exact (List.prefix_append _ _).trans hb
    · have hL : PRL me hist H ks := by simpa [PR, ho] using hp
      rcases (by simpa [Has] using h : (one = me ∧ i = I) ∨ HasL me I ks) with ⟨h1, _⟩ | hk
      · exact absurd h1 ho
      · exact hasL_prefix me hist I ks H hL hk
theorem hasL_prefix (me : Bool) (hist : ℕ → Hist) (I : ℕ) :
    ∀ (ks : List (Node ℝ)) (H : Hist), PRL me hist H ks → HasL me I ks → H <+: hist I
  | [], _, _, h => by simp [HasL] at h
  | k :: ks, H, hp, h => by
    obtain ⟨h1, h2⟩ := (by simpa [PRL] using hp : PR me hist H k ∧ PRL me hist H ks)
    rcases (by simpa [HasL] using h : Has me I k ∨ HasL me I ks) with hk | hk
    · exact has_prefix me hist I k H h1 hk
    · exact hasL_prefix me hist I ks H h2 hk
theorem hasD_prefix (me : Bool) (hist : ℕ → Hist) (I : ℕ) :
    ∀ (ks : List (Node ℝ)) (H : Hist) (j a : ℕ), PRD me hist H j a ks → HasL me I ks →
      ∃ b, a ≤ b ∧ (H ++ [(j, b)]) <+: hist I
  | [], _, _, _, _, h => by simp [HasL] at h
  | k :: ks, H, j, a, hp, h => by
    obtain ⟨h1, h2⟩ :=
      (by simpa [PRD] using hp : PR me hist (H ++ [(j, a)]) k ∧ PRD me hist H j (a + 1) ks)
    rcases (by simpa [HasL] using h : Has me I k ∨ HasL me I ks) with hk | hk
    · exact ⟨a, le_rfl, has_prefix me hist I k _ h1 hk⟩
    · obtain ⟨b, hb, hpre⟩ := hasD_prefix me hist I ks H j (a + 1) h2 hk
      exact ⟨b, by omega, hpre⟩
end

theorem uniq_of_PRD (me : Bool) (hist : ℕ → Hist) (I : ℕ) :
    ∀ (ks : List (Node ℝ)) (H : Hist) (j a : ℕ), PRD me hist H j a ks → Uniq me I ks
  | [], _, _, _, _ => by simp [Uniq]
  | k :: ks, H, j, a, hp => by
    obtain ⟨h1, h2⟩ :=
      (by simpa [PRD] using hp : PR me hist (H ++ [(j, a)]) k ∧ PRD me hist H j (a + 1) ks)
    simp only [Uniq]
    refine ⟨fun hk hks => ?_, uniq_of_PRD me hist I ks H j (a + 1) h2⟩
    have p1 := has_prefix me hist I k _ h1 hk
    obtain ⟨b, hb, p2⟩ := hasD_prefix me hist I ks H j (a + 1) h2 hks
    have := prefix_snoc_inj' p1 p2
    simp only [Prod.mk.injEq, true_and] at this
    omega

theorem noHas_of_PRD (me : Bool) (hist : ℕ → Hist) (I : ℕ) (ks : List (Node ℝ)) (a : ℕ)
    (hp : PRD me hist (hist I) I a ks) : ¬ HasL me I ks := by
  intro h
  obtain ⟨b, _, hpre⟩ := hasD_prefix me hist I ks _ I a hp h
  have := hpre.length_le
  simp at this

mutual
theorem good_of_PR (me : Bool) (hist : ℕ → Hist) (I : ℕ) :
    ∀ (n : Node ℝ) (H : Hist), PR me hist H n → GoodR me I n
  | .term _, _, _ => by simp [GoodR]
  | .chance _ ks, H, hp => by
    simp only [GoodR]
    exact goodL_of_PRL me hist I ks H (by simpa [PR] using hp)
  | .player one i ks, H, hp => by
    simp only [GoodR]
    by_cases ho : one = me
    · obtain ⟨hH, hD⟩ := (by simpa [PR, ho] using hp : hist i = H ∧ PRD me hist H i 0 ks)
      refine ⟨goodL_of_PRD me hist I ks H i 0 hD, fun _ => ⟨fun hi => ?_, fun _ => ?_⟩⟩
      · subst hi
        rw [← hH] at hD
        exact noHas_of_PRD me hist i ks 0 hD
      · exact uniq_of_PRD me hist I ks H i 0 hD
    · have hL : PRL me hist H ks := by simpa [PR, ho] using hp
      exact ⟨goodL_of_PRL me hist I ks H hL, fun h => absurd h ho⟩
theorem goodL_of_PRL (me : Bool) (hist : ℕ → Hist) (I : ℕ) :
    ∀ (ks : List (Node ℝ)) (H : Hist), PRL me hist H ks → GoodL me I ks
  | [], _, _ => by simp [GoodL]
  | k :: ks, H, hp => by
    obtain ⟨h1, h2⟩ := (by simpa [PRL] using hp : PR me hist H k ∧ PRL me hist H ks)
    simp only [GoodL]
    exact ⟨good_of_PR me hist I k H h1, goodL_of_PRL me hist I ks H h2⟩
theorem goodL_of_PRD (me : Bool) (hist : ℕ → Hist) (I : ℕ) :
    ∀ (ks : List (Node ℝ)) (H : Hist) (j a : ℕ), PRD me hist H j a ks → GoodL me I ks
  | [], _, _, _, _ => by simp [GoodL]
  | k :: ks, H, j, a, hp => by
    obtain ⟨h1, h2⟩ :=
      (by simpa [PRD] using hp : PR me hist (H ++ [(j, a)]) k ∧ PRD me hist H j (a + 1) ks)
    simp only [GoodL]
    exact ⟨good_of_PR me hist I k _ h1, goodL_of_PRD me hist I ks H j (a + 1) h2⟩
end

/-! ## the tables fit the tree -/

mutual
/-- chance tables and current strategies fit the tree: right lengths, probability vectors -/
def TFit (ch : List (List ℝ)) (st : Bool → ℕ → List ℝ) : Node ℝ → Prop
  | .term _ => True
  | .chance i ks =>
    (ch.getD i []).length = ks.length ∧ ks ≠ [] ∧ IsDist (ch.getD i []) ∧ TFitL ch st ks
  | .player one i ks =>
    (st one i).length = ks.length ∧ ks ≠ [] ∧ IsDist (st one i) ∧ TFitL ch st ks
def TFitL (ch : List (List ℝ)) (st : Bool → ℕ → List ℝ) : List (Node ℝ) → Prop
  | [] => True
  | k :: ks => TFit ch st k ∧ TFitL ch st ks
end

theorem tableOK_get_r : ∀ (es : List PInfo) (xs : List (InfoSt ℝ)), TableOK es xs →
    (∀ (i : ℕ) (e : PInfo), es[i]? = some e → ∃ x, xs[i]? = some x ∧ InfoOK e.actions.length x) ∧
    (∀ (i : ℕ) (x : InfoSt ℝ), xs[i]? = some x → ∃ e, es[i]? = some e ∧ InfoOK e.actions.length x)
  | [], [], _ => by simp
  | e :: es, x :: xs, h => by
    simp only [TableOK] at h
    obtain ⟨r1, r2⟩ := tableOK_get_r es xs h.2
    constructor
    · intro i e' he
      cases i with
      | zero =>
        simp only [List.getElem?_cons_zero, Option.some.injEq] at he
        subst he
        exact ⟨x, by simp, h.1⟩
      | succ i =>
        simp only [List.getElem?_cons_succ] at he ⊢
        exact r1 i e' he
    · intro i x' hx
      cases i with
      | zero =>
        simp only [List.getElem?_cons_zero, Option.some.injEq] at hx
        subst hx
        exact ⟨e, by simp, h.1⟩
      | succ i =>
        simp only [List.getElem?_cons_succ] at hx ⊢
        exact r2 i x' hx
  | [], _ :: _, h => by simp [TableOK] at h
  | _ :: _, [], h => by simp [TableOK] at h

theorem tableOK_length_r : ∀ (es : List PInfo) (xs : List (InfoSt ℝ)), TableOK es xs →
    xs.length = es.length
  | [], [], _ => rfl
  | e :: es, x :: xs, h => by
    simp only [TableOK] at h
    simp [tableOK_length_r es xs h.2]
  | [], _ :: _, h => by simp [TableOK] at h
  | _ :: _, [], h => by simp [TableOK] at h

theorem strat_of_get_r (s : SolveSt ℝ) (one : Bool) (i : ℕ) (x : InfoSt ℝ)
    (h : (s.get one)[i]? = some x) : s.strat one i = x.strat := by
  simp [SolveSt.strat, h]

mutual
theorem tfit_of_ok (g : Game ℝ) (hg : GameWF g) (s : SolveSt ℝ) (hs : StOK g s) :
    ∀ n : Node ℝ, NodeOK g n → TFit g.chance s.strat n
  | .term _, _ => by simp [TFit]
  | .chance i ks, h => by
    obtain ⟨⟨ps, hps, hl⟩, h2, hk⟩ := (by simpa [NodeOK] using h :
      (∃ ps, g.chance[i]? = some ps ∧ ps.length = ks.length) ∧ 2 ≤ ks.length ∧ NodeOKL g ks)
    have e : g.chance.getD i [] = ps := by
      rw [List.getD_eq_getElem?_getD, hps]; rfl
    have hmem : ps ∈ g.chance := List.mem_of_getElem? hps
    obtain ⟨hp, hsum⟩ := hg.chancePos ps hmem
    simp only [TFit, e]
    refine ⟨hl, ?_, ⟨fun p hp' => (hp p hp').le, hsum⟩, tfitL_of_ok g hg s hs ks hk⟩
    intro hnil; subst hnil; simp at h2
  | .player one i ks, h => by
    obtain ⟨⟨e, he, hl⟩, h2, hk⟩ := (by simpa [NodeOK] using h :
      (∃ e, (g.infos one)[i]? = some e ∧ e.actions.length = ks.length) ∧ 2 ≤ ks.length
        ∧ NodeOKL g ks)
    obtain ⟨x, hx, hok⟩ := (tableOK_get_r _ _ (hs one)).1 i e he
    simp only [TFit, strat_of_get_r s one i x hx]
    refine ⟨by rw [hok.lenσ, hl], ?_, hok.dist, tfitL_of_ok g hg s hs ks hk⟩
    intro hnil; subst hnil; simp at h2
theorem tfitL_of_ok (g : Game ℝ) (hg : GameWF g) (s : SolveSt ℝ) (hs : StOK g s) :
    ∀ ks : List (Node ℝ), NodeOKL g ks → TFitL g.chance s.strat ks
  | [], _ => by simp [TFitL]
  | k :: ks, h => by
    obtain ⟨h1, h2⟩ := (by simpa [NodeOKL] using h : NodeOK g k ∧ NodeOKL g ks)
    simp only [TFitL]
    exact ⟨tfit_of_ok g hg s hs k h1, tfitL_of_ok g hg s hs ks h2⟩
end

/-! ## draws -/

/-- the draw oracle returns an index into the weight list it is given -/
def DrawLt (draw : DrawFn ℝ) : Prop :=
  ∀ (kind i pass : ℕ) (ws : List ℝ), ws ≠ [] → draw kind i pass ws < ws.length

theorem assocGet_cons_r (a b : ℕ) (l : List (ℕ × ℕ)) (j : ℕ) :
    assocGet ((a, b) :: l) j = if a = j then some b else assocGet l j := by
  unfold assocGet
  by_cases hj : a = j
  · simp [hj]
  · simp [hj]

end Cfr
