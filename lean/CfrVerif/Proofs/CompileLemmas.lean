import CfrVerif.Proofs.GameWF
/-!
# Helper lemmas for `compile_ok_wf`: histories from `prev` pointers, monotonicity of
`NodeOK` / `PR` under table extension, the builder-state invariant
-/
set_option linter.unusedSectionVars false
namespace Cfr

/-! ## lists -/

theorem prefix_getElem? {β : Type} {l l' : List β} (h : l <+: l') {i : Nat} {e : β}
    (hi : l[i]? = some e) : l'[i]? = some e := by
  obtain ⟨t, rfl⟩ := h
  have hl : i < l.length := by
    by_contra hc
    rw [List.getElem?_eq_none (by omega)] at hi
    exact absurd hi (by simp)
  rw [List.getElem?_append_left hl]; exact hi

theorem lt_of_getElem?_some {β : Type} {l : List β} {i : Nat} {e : β} (hi : l[i]? = some e) :
    i < l.length := by
  by_contra hc
  rw [List.getElem?_eq_none (by omega)] at hi
  exact absurd hi (by simp)

theorem eraseDups_length_le : ∀ (n : Nat) (l : List Nat), l.length ≤ n →
    l.eraseDups.length ≤ l.length
  | _, [], _ => by simp
  | 0, a :: l, h => by simp at h
  | n + 1, a :: l, h => by
    rw [List.eraseDups_cons]
    have hf := List.length_filter_le (fun b => !b == a) l
    have := eraseDups_length_le n (l.filter fun b => !b == a)
      (by simp only [List.length_cons] at h; omega)
    simp only [List.length_cons]; omega

theorem nodup_of_eraseDups_length : ∀ (n : Nat) (l : List Nat), l.length ≤ n →
    l.eraseDups.length = l.length → l.Nodup
  | _, [], _, _ => by simp
  | 0, a :: l, h, _ => by simp at h
  | n + 1, a :: l, h, he => by
    rw [List.eraseDups_cons] at he
    have hf := List.length_filter_le (fun b => !b == a) l
    have hn : (l.filter fun b => !b == a).length ≤ n := by
      simp only [List.length_cons] at h; omega
    have h1 := eraseDups_length_le n (l.filter fun b => !b == a) hn
    simp only [List.length_cons] at he
    have hfl : (l.filter fun b => !b == a).length = l.length := by omega
    have hfe : (l.filter fun b => !b == a) = l := by
      rw [List.filter_eq_self]
      exact List.length_filter_eq_length_iff.mp hfl
    rw [hfe] at he
    have hl := nodup_of_eraseDups_length n l (by simp only [List.length_cons] at h; omega)
      (by omega)
    rw [List.nodup_cons]
    refine ⟨?_, hl⟩
    intro hm
    have := (List.filter_eq_self.mp hfe) a hm
    simp at this

/-! ## own histories from the `prev` pointers -/

/-- follow the `prev` pointers (which point to strictly smaller indices) -/
def histOf (infos : List PInfo) (i : Nat) : Hist :=
  match infos[i]? with
  | some e =>
    match e.prev with
    | some (j, a) => if _h : j < i then histOf infos j ++ [(j, a)] else []
    | none => []
  | none => []
termination_by i

/-- the history that corresponds to a `Prev` component -/
def histP (infos : List PInfo) : Option (Nat × Nat) → Hist
  | none => []
  | some (j, a) => histOf infos j ++ [(j, a)]

theorem histOf_lt (infos : List PInfo) : ∀ i, ∀ e ∈ histOf infos i, e.1 < i := by
  intro i
  induction i using Nat.strong_induction_on with
  | _ i ih =>
    intro e he
    rw [histOf] at he
    split at he
    · split at he
      · split_ifs at he with hj
        · rcases List.mem_append.mp he with h | h
          · have := ih _ hj e h; omega
          · simp only [List.mem_singleton] at h; subst h; exact hj
        · simp at he
      · simp at he
    · simp at he

theorem histOf_prefix {infos infos' : List PInfo} (h : infos <+: infos') :
    ∀ i, i < infos.length → histOf infos' i = histOf infos i := by
  intro i
  induction i using Nat.strong_induction_on with
  | _ i ih =>
    intro hi
    obtain ⟨e, he⟩ : ∃ e, infos[i]? = some e := ⟨infos[i], by simp [hi]⟩
    have he' := prefix_getElem? h he
    rw [histOf, histOf.eq_1 infos, he, he']
    simp only
    split
    · split_ifs with hj
      · rw [ih _ hj (by omega)]
      · rfl
    · rfl

theorem histP_prefix {infos infos' : List PInfo} (h : infos <+: infos') (p : Option (Nat × Nat))
    (hp : ∀ j a, p = some (j, a) → j < infos.length) : histP infos' p = histP infos p := by
  match p, hp with
  | none, _ => rfl
  | some (j, a), hp => simp only [histP]; rw [histOf_prefix h j (hp j a rfl)]

theorem histOf_eq_histP {infos : List PInfo} {i : Nat} {e : PInfo} (he : infos[i]? = some e)
    (hlt : ∀ j a, e.prev = some (j, a) → j < i) : histOf infos i = histP infos e.prev := by
  rw [histOf, he]
  simp only
  split
  · rename_i j a hja
    rw [hja, dif_pos (hlt j a hja)]; rfl
  · rename_i hn
    rw [hn]; rfl

/-! ## monotonicity of `NodeOK` and `PR` -/

variable {α : Type}

mutual
theorem NodeOK_mono {g g' : Game α} (hc : g.chance <+: g'.chance)
    (hi : ∀ one, g.infos one <+: g'.infos one) : ∀ n : Node α, NodeOK g n → NodeOK g' n
  | .term _, _ => by simp [NodeOK]
  | .chance i ks, h => by
    simp only [NodeOK] at h ⊢
    obtain ⟨⟨ps, h1, h2⟩, h3, h4⟩ := h
    exact ⟨⟨ps, prefix_getElem? hc h1, h2⟩, h3, NodeOKL_mono hc hi ks h4⟩
  | .player one i ks, h => by
    simp only [NodeOK] at h ⊢
    obtain ⟨⟨e, h1, h2⟩, h3, h4⟩ := h
    exact ⟨⟨e, prefix_getElem? (hi one) h1, h2⟩, h3, NodeOKL_mono hc hi ks h4⟩
theorem NodeOKL_mono {g g' : Game α} (hc : g.chance <+: g'.chance)
    (hi : ∀ one, g.infos one <+: g'.infos one) : ∀ ns : List (Node α), NodeOKL g ns → NodeOKL g' ns
  | [], _ => by simp [NodeOKL]
  | k :: ks, h => by
    simp only [NodeOKL] at h ⊢
    exact ⟨NodeOK_mono hc hi k h.1, NodeOKL_mono hc hi ks h.2⟩
end

mutual
theorem PR_lift (g : Game α) (me : Bool) (hist hist' : Nat → Hist)
    (hh : ∀ i, i < (g.infos me).length → hist' i = hist i) :
    ∀ (n : Node α) (H : Hist), NodeOK g n → PR me hist H n → PR me hist' H n
  | .term _, _, _, _ => by simp [PR]
  | .chance i ks, H, hn, h => by
    simp only [NodeOK] at hn
    simp only [PR] at h ⊢
    exact PRL_lift g me hist hist' hh ks H hn.2.2 h
  | .player one i ks, H, hn, h => by
    simp only [NodeOK] at hn
    obtain ⟨⟨e, h1, h2⟩, h3, h4⟩ := hn
    simp only [PR] at h ⊢
    by_cases hm : one = me
    · subst hm
      simp only [if_true] at h ⊢
      refine ⟨?_, PRD_lift g one hist hist' hh ks H i 0 h4 h.2⟩
      rw [hh i (lt_of_getElem?_some h1)]; exact h.1
    · simp only [hm, if_false] at h ⊢
      exact PRL_lift g me hist hist' hh ks H h4 h
theorem PRL_lift (g : Game α) (me : Bool) (hist hist' : Nat → Hist)
    (hh : ∀ i, i < (g.infos me).length → hist' i = hist i) :
    ∀ (ns : List (Node α)) (H : Hist), NodeOKL g ns → PRL me hist H ns → PRL me hist' H ns
  | [], _, _, _ => by simp [PRL]
  | k :: ks, H, hn, h => by
    simp only [NodeOKL] at hn
    simp only [PRL] at h ⊢
    exact ⟨PR_lift g me hist hist' hh k H hn.1 h.1, PRL_lift g me hist hist' hh ks H hn.2 h.2⟩
theorem PRD_lift (g : Game α) (me : Bool) (hist hist' : Nat → Hist)
    (hh : ∀ i, i < (g.infos me).length → hist' i = hist i) :
    ∀ (ns : List (Node α)) (H : Hist) (i a : Nat), NodeOKL g ns → PRD me hist H i a ns →
      PRD me hist' H i a ns
  | [], _, _, _, _, _ => by simp [PRD]
  | k :: ks, H, i, a, hn, h => by
    simp only [NodeOKL] at hn
    simp only [PRD] at h ⊢
    exact ⟨PR_lift g me hist hist' hh k _ hn.1 h.1, PRD_lift g me hist hist' hh ks H i (a + 1) hn.2 h.2⟩
end

/-! ## builder states -/

/-- a builder state read as a game (the root is irrelevant for `NodeOK`) -/
def BState.game (s : BState α) (root : Node α) : Game α :=
  { chance := s.chance.map (·.2), p1 := s.p1, p2 := s.p2, s1 := s.s1, s2 := s.s2, root }

@[simp] theorem BState.game_infos (s : BState α) (r : Node α) (one : Bool) :
    (s.game r).infos one = s.infos one := by cases one <;> rfl

@[simp] theorem BState.game_chance (s : BState α) (r : Node α) :
    (s.game r).chance = s.chance.map (·.2) := rfl

@[simp] theorem BState.infos_setInfos (s : BState α) (one me : Bool) (l : List PInfo) :
    (s.setInfos one l).infos me = if one = me then l else s.infos me := by
  cases one <;> cases me <;> rfl
@[simp] theorem BState.singles_setInfos (s : BState α) (one me : Bool) (l : List PInfo) :
    (s.setInfos one l).singles me = s.singles me := by
  cases one <;> cases me <;> rfl
@[simp] theorem BState.chance_setInfos (s : BState α) (one : Bool) (l : List PInfo) :
    (s.setInfos one l).chance = s.chance := by
  cases one <;> rfl
@[simp] theorem BState.infos_setSingles (s : BState α) (one me : Bool) (l : List (Nat × Nat)) :
    (s.setSingles one l).infos me = s.infos me := by
  cases one <;> cases me <;> rfl
@[simp] theorem BState.singles_setSingles (s : BState α) (one me : Bool) (l : List (Nat × Nat)) :
    (s.setSingles one l).singles me = if one = me then l else s.singles me := by
  cases one <;> cases me <;> rfl
@[simp] theorem BState.chance_setSingles (s : BState α) (one : Bool) (l : List (Nat × Nat)) :
    (s.setSingles one l).chance = s.chance := by
  cases one <;> rfl
@[simp] theorem BState.infos_setChance (s : BState α) (c : List (Option Nat × List α)) (me : Bool) :
    ({ s with chance := c } : BState α).infos me = s.infos me := by
  cases me <;> rfl
@[simp] theorem BState.singles_setChance (s : BState α) (c : List (Option Nat × List α))
    (me : Bool) : ({ s with chance := c } : BState α).singles me = s.singles me := by
  cases me <;> rfl

@[simp] theorem Prev.get_set (p : Prev) (one me : Bool) (v : Option (Nat × Nat)) :
    (p.set one v).get me = if one = me then v else p.get me := by
  cases one <;> cases me <;> rfl

/-- the later state extends the earlier one: tables only grow at the end -/
structure Grows (s s' : BState α) : Prop where
  chance : s.chance <+: s'.chance
  infos : ∀ one, s.infos one <+: s'.infos one

theorem Grows.refl (s : BState α) : Grows s s := ⟨List.prefix_refl _, fun _ => List.prefix_refl _⟩
theorem Grows.trans {s s' s'' : BState α} (h : Grows s s') (h' : Grows s' s'') : Grows s s'' :=
  ⟨h.chance.trans h'.chance, fun one => (h.infos one).trans (h'.infos one)⟩

theorem Grows.nodeOK {s s' : BState α} (h : Grows s s') {r r' : Node α} {n : Node α}
    (hn : NodeOK (s.game r) n) : NodeOK (s'.game r') n :=
  NodeOK_mono (by simpa using h.chance.map _) (by simpa using h.infos) n hn
theorem Grows.nodeOKL {s s' : BState α} (h : Grows s s') {r r' : Node α} {ns : List (Node α)}
    (hn : NodeOKL (s.game r) ns) : NodeOKL (s'.game r') ns :=
  NodeOKL_mono (by simpa using h.chance.map _) (by simpa using h.infos) ns hn

/-- every `prev` component points into the current table -/
def PrevOK (prev : Prev) (s : BState α) : Prop :=
  ∀ one j a, prev.get one = some (j, a) → j < (s.infos one).length

theorem PrevOK.mono {prev : Prev} {s s' : BState α} (h : PrevOK prev s) (he : Grows s s') :
    PrevOK prev s' := fun one j a hp =>
  Nat.lt_of_lt_of_le (h one j a hp) (he.infos one).length_le

theorem TablesWF.addSingle {I : List PInfo} {S : List (Nat × Nat)} (h : TablesWF I S) (l a : Nat)
    (h1 : ∀ e ∈ I, e.label ≠ l) (h2 : ∀ e ∈ S, e.1 ≠ l) : TablesWF I (S ++ [(l, a)]) where
  labelsNodup := h.labelsNodup
  singlesNodup := by
    rw [List.map_append, List.nodup_append]
    refine ⟨h.singlesNodup, by simp, ?_⟩
    intro x hx y hy
    simp only [List.map_cons, List.map_nil, List.mem_singleton] at hy
    obtain ⟨e, he, rfl⟩ := List.mem_map.mp hx
    rw [hy]; exact h2 e he
  disjoint := by
    intro x hx
    rw [List.map_append, List.mem_append, not_or]
    refine ⟨h.disjoint x hx, ?_⟩
    obtain ⟨e, he, rfl⟩ := List.mem_map.mp hx
    simpa using h1 e he
  actionsNodup := h.actionsNodup

theorem TablesWF.addInfo {I : List PInfo} {S : List (Nat × Nat)} (h : TablesWF I S) (e0 : PInfo)
    (h1 : ∀ e ∈ I, e.label ≠ e0.label) (h2 : ∀ e ∈ S, e.1 ≠ e0.label) (h3 : e0.actions.Nodup) :
    TablesWF (I ++ [e0]) S where
  labelsNodup := by
    rw [List.map_append, List.nodup_append]
    refine ⟨h.labelsNodup, by simp, ?_⟩
    intro x hx y hy
    simp only [List.map_cons, List.map_nil, List.mem_singleton] at hy
    obtain ⟨e, he, rfl⟩ := List.mem_map.mp hx
    rw [hy]; exact h1 e he
  singlesNodup := h.singlesNodup
  disjoint := by
    intro x hx
    rw [List.map_append, List.mem_append] at hx
    rcases hx with hx | hx
    · exact h.disjoint x hx
    · simp only [List.map_cons, List.map_nil, List.mem_singleton] at hx
      subst hx
      intro hm
      obtain ⟨e, he, hel⟩ := List.mem_map.mp hm
      exact h2 e he hel
  actionsNodup := by
    intro i hi
    rcases List.mem_append.mp hi with hi | hi
    · exact h.actionsNodup i hi
    · simp only [List.mem_singleton] at hi; subst hi; exact h3

/-! ## the builder-state invariant and the registration steps -/

section
variable [Field α] [LinearOrder α] [IsStrictOrderedRing α]

theorem sum_map_div (l : List α) (c : α) : (l.map (· / c)).sum = l.sum / c := by
  induction l with
  | nil => simp
  | cons x l ih => simp only [List.map_cons, List.sum_cons, ih, add_div]

theorem sum_pos_of_pos : ∀ (l : List α), l ≠ [] → (∀ p ∈ l, 0 < p) → 0 < l.sum
  | [], h, _ => absurd rfl h
  | [x], _, hp => by simpa using hp x (by simp)
  | x :: y :: l, _, hp => by
    have h1 : 0 < x := hp x (by simp)
    have h2 := sum_pos_of_pos (y :: l) (by simp) (fun p hp' => hp p (by simp [hp']))
    rw [List.sum_cons]; exact add_pos h1 h2

structure BInv (s : BState α) : Prop where
  tables : ∀ one, TablesWF (s.infos one) (s.singles one)
  acts : ∀ one, ∀ e ∈ s.infos one, 2 ≤ e.actions.length
  prevLt : ∀ one i (e : PInfo), (s.infos one)[i]? = some e → ∀ j a, e.prev = some (j, a) → j < i
  chance : ∀ e ∈ s.chance, (∀ p ∈ e.2, 0 < p) ∧ e.2.sum = 1

theorem registerSingle_inv {one : Bool} {info a : Nat} {s s' : BState α}
    (h : registerSingle one info a s = .ok s') (hb : BInv s) :
    BInv s' ∧ Grows s s' ∧ ∀ me, s'.infos me = s.infos me := by
  unfold registerSingle at h
  split_ifs at h with hany
  split at h
  · split_ifs at h
    cases h
    exact ⟨hb, Grows.refl _, fun _ => rfl⟩
  · rename_i hf
    cases h
    refine ⟨⟨?_, ?_, ?_, ?_⟩, ⟨?_, ?_⟩, ?_⟩
    · intro me
      by_cases hm : one = me
      · subst hm
        simp only [BState.infos_setSingles, BState.singles_setSingles, if_true]
        refine (hb.tables one).addSingle info a ?_ ?_
        · intro e he hl
          exact hany (List.any_eq_true.mpr ⟨e, he, by simpa using hl⟩)
        · intro e he hl
          have := List.find?_eq_none.mp hf e he
          exact this (by simpa using hl)
      · simp only [BState.infos_setSingles, BState.singles_setSingles, hm, if_false]
        exact hb.tables me
    · intro me; simpa using hb.acts me
    · intro me; simpa using hb.prevLt me
    · simpa using hb.chance
    · simp
    · intro me; simp
    · intro me; simp

theorem registerPlayer_inv {one : Bool} {info : Nat} {acts : List Nat} {prev : Prev}
    {s s' : BState α} {i : Nat}
    (h : registerPlayer one info acts prev s = .ok (i, s')) (h2 : 2 ≤ acts.length)
    (hb : BInv s) (hp : PrevOK prev s) :
    BInv s' ∧ Grows s s' ∧
      ∃ e, (s'.infos one)[i]? = some e ∧ e.actions = acts ∧ e.prev = prev.get one := by
  unfold registerPlayer at h
  split at h
  · split at h
    · rename_i e he
      split_ifs at h with h3 h4
      cases h
      refine ⟨hb, Grows.refl _, e, he, ?_, ?_⟩
      · simpa using h3
      · simpa using h4
    · cases h
  · rename_i hf
    split_ifs at h with h3 h4
    cases h
    have hlab : ∀ e ∈ s.infos one, e.label ≠ info := by
      intro e he hl
      have := List.findIdx?_eq_none_iff.mp hf e he
      simp [hl] at this
    have hsing : ∀ e ∈ s.singles one, e.1 ≠ info := by
      intro e he hl
      exact h3 (List.any_eq_true.mpr ⟨e, he, by simpa using hl⟩)
    have hnd : acts.Nodup :=
      nodup_of_eraseDups_length acts.length acts (Nat.le_refl _) (by simpa using h4)
    refine ⟨⟨?_, ?_, ?_, ?_⟩, ⟨?_, ?_⟩, ⟨info, acts, prev.get one⟩, ?_, rfl, rfl⟩
    · intro me
      by_cases hm : one = me
      · subst hm
        simp only [BState.infos_setInfos, BState.singles_setInfos, if_true]
        exact (hb.tables one).addInfo ⟨info, acts, prev.get one⟩ hlab hsing hnd
      · simp only [BState.infos_setInfos, BState.singles_setInfos, hm, if_false]
        exact hb.tables me
    · intro me e he
      by_cases hm : one = me
      · subst hm
        simp only [BState.infos_setInfos, if_true, List.mem_append, List.mem_singleton] at he
        rcases he with he | he
        · exact hb.acts one e he
        · subst he; exact h2
      · simp only [BState.infos_setInfos, hm, if_false] at he
        exact hb.acts me e he
    · intro me k e he j a hja
      by_cases hm : one = me
      · subst hm
        simp only [BState.infos_setInfos, if_true] at he
        by_cases hk : k < (s.infos one).length
        · rw [List.getElem?_append_left hk] at he
          exact hb.prevLt one k e he j a hja
        · have hk' := lt_of_getElem?_some he
          simp only [List.length_append, List.length_cons, List.length_nil] at hk'
          have hke : k = (s.infos one).length := by omega
          subst hke
          simp only [List.getElem?_concat_length, Option.some.injEq] at he
          subst he
          exact hp one j a hja
      · simp only [BState.infos_setInfos, hm, if_false] at he
        exact hb.prevLt me k e he j a hja
    · simpa using hb.chance
    · simp
    · intro me
      by_cases hm : one = me
      · subst hm; simp
      · simp [hm]
    · simp

theorem two_le_length_of {β : Type} : ∀ {l : List β}, l ≠ [] → (∀ k, l ≠ [k]) → 2 ≤ l.length
  | [], h, _ => absurd rfl h
  | [k], _, h => absurd rfl (h k)
  | _ :: _ :: _, _, _ => by simp

theorem BInv.addChance {s : BState α} (hb : BInv s) (x : Option Nat) (P : List α)
    (hP : (∀ p ∈ P, 0 < p) ∧ P.sum = 1) :
    BInv ({ s with chance := s.chance ++ [(x, P)] } : BState α) ∧
      Grows s ({ s with chance := s.chance ++ [(x, P)] } : BState α) := by
  refine ⟨⟨?_, ?_, ?_, ?_⟩, ⟨?_, ?_⟩⟩
  · intro me; simpa using hb.tables me
  · intro me; simpa using hb.acts me
  · intro me; simpa using hb.prevLt me
  · intro e he
    rcases List.mem_append.mp he with he | he
    · exact hb.chance e he
    · simp only [List.mem_singleton] at he; subst he; exact hP
  · simp
  · intro me; simp

theorem registerChance_inv {info : Option Nat} {probs : List α} {nodes : List (Node α)}
    {s s' : BState α} {n r : Node α}
    (h : registerChance info probs nodes s = .ok (n, s')) (hb : BInv s)
    (hl : probs.length = nodes.length) (hpos : ∀ p ∈ probs, 0 < p)
    (hn : NodeOKL (s.game r) nodes) :
    BInv s' ∧ Grows s s' ∧ NodeOK (s'.game r) n ∧
      ∀ (me : Bool) (hist : Nat → Hist) (H : Hist), PRL me hist H nodes → PR me hist H n := by
  unfold registerChance at h
  split at h
  · cases h
  · rename_i k
    simp only [NodeOKL] at hn
    have hpr : ∀ (me : Bool) (hist : Nat → Hist) (H : Hist), PRL me hist H [k] → PR me hist H k :=
      fun me hist H hh => by simp only [PRL] at hh; exact hh.1
    split at h
    · cases h
      exact ⟨hb, Grows.refl _, hn.1, hpr⟩
    · split at h
      · split_ifs at h
        cases h
        exact ⟨hb, Grows.refl _, hn.1, hpr⟩
      · cases h
        obtain ⟨hb', hg⟩ := hb.addChance _ [1] (by simp)
        exact ⟨hb', hg, hg.nodeOK hn.1, hpr⟩
  · rename_i h0 h1
    have h2 : 2 ≤ nodes.length := two_le_length_of (fun e => h0 e) (fun k e => h1 k e)
    have hne : probs ≠ [] := by
      intro e; rw [e] at hl; simp at hl; omega
    have htot : 0 < lsum probs := by rw [lsum_eq_sum]; exact sum_pos_of_pos probs hne hpos
    have hP : (∀ p ∈ probs.map (· / lsum probs), 0 < p) ∧ (probs.map (· / lsum probs)).sum = 1 := by
      constructor
      · intro p hp
        obtain ⟨q, hq, rfl⟩ := List.mem_map.mp hp
        exact div_pos (hpos q hq) htot
      · rw [sum_map_div, lsum_eq_sum, div_self]
        rw [lsum_eq_sum] at htot; exact ne_of_gt htot
    have hPl : (probs.map (· / lsum probs)).length = nodes.length := by simp [hl]
    have hpr : ∀ (i : Nat) (me : Bool) (hist : Nat → Hist) (H : Hist),
        PRL me hist H nodes → PR me hist H (.chance i nodes) :=
      fun i me hist H hh => by simp only [PR]; exact hh
    dsimp only at h
    split at h
    · cases h
      obtain ⟨hb', hg⟩ := hb.addChance none _ hP
      refine ⟨hb', hg, ?_, hpr _⟩
      simp only [NodeOK]
      exact ⟨⟨_, by simp, hPl⟩, h2, hg.nodeOKL hn⟩
    · split at h
      · rename_i i _
        split_ifs at h with he
        cases h
        refine ⟨hb, Grows.refl _, ?_, hpr _⟩
        simp only [NodeOK]
        refine ⟨⟨_, ?_, hPl⟩, h2, hn⟩
        simp only [BState.game_chance, List.getElem?_map]
        simpa using he
      · cases h
        obtain ⟨hb', hg⟩ := hb.addChance _ _ hP
        refine ⟨hb', hg, ?_, hpr _⟩
        simp only [NodeOK]
        exact ⟨⟨_, by simp, hPl⟩, h2, hg.nodeOKL hn⟩

end

end Cfr
