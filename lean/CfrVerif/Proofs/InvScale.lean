import CfrVerif.Proofs.Transforms
import CfrVerif.Proofs.InvScaleLemmas
import CfrVerif.Model.Eval
/-!
# C12, part 2: multiplying the payoffs by a positive constant
-/
set_option linter.unusedSectionVars false
namespace Cfr
variable {α : Type} [Field α] [LinearOrder α] [IsStrictOrderedRing α]

/-- payoffs do not influence construction (exact arithmetic: every payoff is finite) -/
theorem fromRoot_mapPay (f : α → α) (r : Raw α) :
    fromRoot (r.mapPay f) = (fromRoot r).map (Game.mapPay f) :=
  fromRoot_mapPay_aux f r

/-- **evaluation is homogeneous**: utilities and regrets are multiplied by `c` (every game, every
profile) -/
theorem getInfo_scale (c : α) (hc : 0 < c) (g : Game α) (σ : Bool → Strat α) :
    (getInfo (g.mapPay (fun x => c * x)) σ).util = c * (getInfo g σ).util ∧
    (getInfo (g.mapPay (fun x => c * x)) σ).regretOne = c * (getInfo g σ).regretOne ∧
    (getInfo (g.mapPay (fun x => c * x)) σ).regretTwo = c * (getInfo g σ).regretTwo :=
  getInfo_scale_aux c hc g σ

/-- the fall-back rule of regret matching is one of the three scale-free ones (uniform, best,
worst action): every preset and the default -/
def RegretParams.ScaleFree (p : RegretParams α) : Prop :=
  p.noPositive = .fin 0 ∨ p.noPositive = .posInf ∨ p.noPositive = .negInf

/-- **the unsampled solver is homogeneous**: same strategies, same number of iterations, bounds
multiplied by `c` (the early-termination threshold scaled along) -/
theorem solve_full_scale [Transc α] (c : α) (hc : 0 < c) (g : Game α) (p : RegretParams α)
    (hp : p.ScaleFree) (draw : DrawFn α) (T : Nat) (thr : Option (Ext α)) :
    solveVanillaSingle (g.mapPay (fun x => c * x)) false p draw T (thr.map (Ext.scale c))
      = (solveVanillaSingle g false p draw T thr).scale c :=
  solveWith_scale hc g _ _ (vanillaIter_scale hc g false p hp draw) T thr

/-- the same for the two sampled solvers under fixed draws -/
theorem solve_sampled_scale [Transc α] (c : α) (hc : 0 < c) (g : Game α) (p : RegretParams α)
    (hp : p.ScaleFree) (draw : DrawFn α) (T : Nat) (thr : Option (Ext α)) :
    solveVanillaSingle (g.mapPay (fun x => c * x)) true p draw T (thr.map (Ext.scale c))
      = (solveVanillaSingle g true p draw T thr).scale c ∧
    solveExternalSingle (g.mapPay (fun x => c * x)) p draw T (thr.map (Ext.scale c))
      = (solveExternalSingle g p draw T thr).scale c :=
  ⟨solveWith_scale hc g _ _ (vanillaIter_scale hc g true p hp draw) T thr,
   solveWith_scale hc g _ _ (externalIter_scale hc g p hp draw) T thr⟩

end Cfr
