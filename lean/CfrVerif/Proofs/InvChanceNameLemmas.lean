import CfrVerif.Proofs.InvCompile
import CfrVerif.Model.Vanilla
/-!
# Helper lemmas for `Proofs/InvChanceName.lean` (C12, part 4)

* `reindex ι n` : the tree `n` with every chance infoset index `i` replaced by `ι i`; evaluation
  (`expected`, `view`) and the unsampled traversal (`vrec`) of the reindexed tree over a chance table
  that holds the same distributions under the new numbers coincide with those of `n`;
* `nth p L i` : the position in `L` of the `i`-th entry satisfying `p`; the builder state of the
  original tree is the builder state of the padded tree with the pad entries filtered out (`Rel`),
  the compiled nodes are related by `reindex (nth keep s'.chance)`.
-/
set_option linter.unusedSectionVars false
namespace Cfr.CN
open Cfr
variable {α : Type} [Field α] [LinearOrder α] [IsStrictOrderedRing α]

/-! ## reindexed trees -/

mutual
/-- every chance infoset index `i` replaced by `ι i` -/
def reindex (ι : Nat → Nat) : Node α → Node α
  | .term p => .term p
  | .chance i ks => .chance (ι i) (reindexL ι ks)
  | .player o i ks => .player o i (reindexL ι ks)
def reindexL (ι : Nat → Nat) : List (Node α) → List (Node α)
  | [] => []
  | k :: ks => reindex ι k :: reindexL ι ks
end

mutual
/-- every chance infoset index of the tree is `< N` -/
def ChLt (N : Nat) : Node α → Prop
  | .term _ => True
  | .chance i ks => i < N ∧ ChLtL N ks
  | .player _ _ ks => ChLtL N ks
def ChLtL (N : Nat) : List (Node α) → Prop
  | [] => True
  | k :: ks => ChLt N k ∧ ChLtL N ks
end

mutual
theorem ChLt.mono {N N' : Nat} (h : N ≤ N') : ∀ (n : Node α), ChLt N n → ChLt N' n
  | .term _, _ => by simp [ChLt]
  | .chance i ks, hn => by
    simp only [ChLt] at hn ⊢
    exact ⟨by omega, ChLtL.mono h ks hn.2⟩
  | .player _ _ ks, hn => by
    simp only [ChLt] at hn ⊢
    exact ChLtL.mono h ks hn
theorem ChLtL.mono {N N' : Nat} (h : N ≤ N') : ∀ (ks : List (Node α)), ChLtL N ks → ChLtL N' ks
  | [], _ => by simp [ChLtL]
  | k :: ks, hn => by
    simp only [ChLtL] at hn ⊢
    exact ⟨ChLt.mono h k hn.1, ChLtL.mono h ks hn.2⟩
end

mutual
theorem chLt_of_nodeOK (g : Game α) : ∀ (n : Node α), NodeOK g n → ChLt g.chance.length n
  | .term _, _ => by simp [ChLt]
  | .chance i ks, hn => by
    simp only [NodeOK] at hn
    obtain ⟨⟨ps, hps, _⟩, _, hk⟩ := hn
    simp only [ChLt]
    exact ⟨lt_of_getElem?_some hps, chLtL_of_nodeOKL g ks hk⟩
  | .player _ _ ks, hn => by
    simp only [NodeOK] at hn
    simp only [ChLt]
    exact chLtL_of_nodeOKL g ks hn.2.2
theorem chLtL_of_nodeOKL (g : Game α) : ∀ (ks : List (Node α)), NodeOKL g ks → ChLtL g.chance.length ks
  | [], _ => by simp [ChLtL]
  | k :: ks, hn => by
    simp only [NodeOKL] at hn
    simp only [ChLtL]
    exact ⟨chLt_of_nodeOK g k hn.1, chLtL_of_nodeOKL g ks hn.2⟩
end

mutual
theorem reindex_congr {N : Nat} {ι ι' : Nat → Nat} (h : ∀ i, i < N → ι i = ι' i) :
    ∀ (n : Node α), ChLt N n → reindex ι n = reindex ι' n
  | .term _, _ => by simp [reindex]
  | .chance i ks, hn => by
    simp only [ChLt] at hn
    simp only [reindex, h i hn.1, reindexL_congr h ks hn.2]
  | .player _ _ ks, hn => by
    simp only [ChLt] at hn
    simp only [reindex, reindexL_congr h ks hn]
theorem reindexL_congr {N : Nat} {ι ι' : Nat → Nat} (h : ∀ i, i < N → ι i = ι' i) :
    ∀ (ks : List (Node α)), ChLtL N ks → reindexL ι ks = reindexL ι' ks
  | [], _ => by simp [reindexL]
  | k :: ks, hn => by
    simp only [ChLtL] at hn
    simp only [reindexL, reindex_congr h k hn.1, reindexL_congr h ks hn.2]
end

section eval
variable (ch ch' : List (List α)) (ι : Nat → Nat) (N : Nat)
  (hch : ∀ i, i < N → ch'.getD (ι i) [] = ch.getD i [])
include hch

mutual
theorem expected_reindex (σ : Bool → Strat α) :
    ∀ (n : Node α), ChLt N n → expected ch' σ (reindex ι n) = expected ch σ n
  | .term _, _ => by simp [reindex, expected]
  | .chance i ks, hn => by
    simp only [ChLt] at hn
    simp only [reindex, expected, hch i hn.1]
    exact expectedL_reindex σ false _ ks hn.2
  | .player _ _ ks, hn => by
    simp only [ChLt] at hn
    simp only [reindex, expected]
    exact expectedL_reindex σ true _ ks hn
theorem expectedL_reindex (σ : Bool → Strat α) (skip : Bool) :
    ∀ (ps : List α) (ks : List (Node α)), ChLtL N ks →
      expectedL ch' σ skip ps (reindexL ι ks) = expectedL ch σ skip ps ks
  | [], ks, _ => by cases ks <;> simp [reindexL, expectedL]
  | _ :: _, [], _ => by simp [reindexL, expectedL]
  | p :: ps, k :: ks, hn => by
    simp only [ChLtL] at hn
    simp only [reindexL, expectedL, expected_reindex σ k hn.1, expectedL_reindex σ skip ps ks hn.2]
end

mutual
theorem view_reindex (σo : Strat α) (me : Bool) :
    ∀ (n : Node α), ChLt N n → view ch' σo me (reindex ι n) = view ch σo me n
  | .term _, _ => by simp [reindex, view]
  | .chance i ks, hn => by
    simp only [ChLt] at hn
    simp only [reindex, view, hch i hn.1, viewL_reindex σo me ks hn.2]
  | .player _ _ ks, hn => by
    simp only [ChLt] at hn
    simp only [reindex, view, viewL_reindex σo me ks hn]
theorem viewL_reindex (σo : Strat α) (me : Bool) :
    ∀ (ks : List (Node α)), ChLtL N ks → viewL ch' σo me (reindexL ι ks) = viewL ch σo me ks
  | [], _ => by simp [reindexL, viewL]
  | k :: ks, hn => by
    simp only [ChLtL] at hn
    simp only [reindexL, viewL, view_reindex σo me k hn.1, viewL_reindex σo me ks hn.2]
end

variable [Transc α]

mutual
theorem vrec_reindex (strat : Bool → Nat → List α) (draw : DrawFn α) (pass : Nat) :
    ∀ (n : Node α) (pc p1 p2 : α) (d : DrawSt α), ChLt N n →
      vrec ⟨ch', false, strat, draw, pass⟩ (reindex ι n) pc p1 p2 d
        = vrec ⟨ch, false, strat, draw, pass⟩ n pc p1 p2 d
  | .term _, _, _, _, _, _ => by simp [reindex, vrec]
  | .chance i ks, pc, p1, p2, d, hn => by
    simp only [ChLt] at hn
    simp only [reindex, vrec, Bool.false_eq_true, if_false, hch i hn.1]
    exact vrecChance_reindex strat draw pass _ ks pc p1 p2 d 0 hn.2
  | .player one i ks, pc, p1, p2, d, hn => by
    simp only [ChLt] at hn
    simp only [reindex, vrec]
    rw [vrecActs_reindex strat draw pass one i _ _ ks pc p1 p2 d 0 0 0 hn]
theorem vrecChance_reindex (strat : Bool → Nat → List α) (draw : DrawFn α) (pass : Nat) :
    ∀ (ps : List α) (ks : List (Node α)) (pc p1 p2 : α) (d : DrawSt α) (acc : α), ChLtL N ks →
      vrecChance ⟨ch', false, strat, draw, pass⟩ ps (reindexL ι ks) pc p1 p2 d acc
        = vrecChance ⟨ch, false, strat, draw, pass⟩ ps ks pc p1 p2 d acc
  | [], ks, _, _, _, _, _, _ => by cases ks <;> simp [reindexL, vrecChance]
  | _ :: _, [], _, _, _, _, _, _ => by simp [reindexL, vrecChance]
  | p :: ps, k :: ks, pc, p1, p2, d, acc, hn => by
    simp only [ChLtL] at hn
    simp only [reindexL, vrecChance]
    rw [vrec_reindex strat draw pass k (pc * p) p1 p2 d hn.1]
    simp only [vrecChance_reindex strat draw pass ps ks pc p1 p2 _ _ hn.2]
theorem vrecActs_reindex (strat : Bool → Nat → List α) (draw : DrawFn α) (pass : Nat)
    (one : Bool) (i : Nat) (mult : α) :
    ∀ (σ : List α) (ks : List (Node α)) (pc p1 p2 : α) (d : DrawSt α) (a : Nat) (eo ex : α),
      ChLtL N ks →
      vrecActs ⟨ch', false, strat, draw, pass⟩ one i mult σ (reindexL ι ks) pc p1 p2 d a eo ex
        = vrecActs ⟨ch, false, strat, draw, pass⟩ one i mult σ ks pc p1 p2 d a eo ex
  | [], ks, _, _, _, _, _, _, _, _ => by cases ks <;> simp [reindexL, vrecActs]
  | _ :: _, [], _, _, _, _, _, _, _, _ => by simp [reindexL, vrecActs]
  | s :: σ, k :: ks, pc, p1, p2, d, a, eo, ex, hn => by
    simp only [ChLtL] at hn
    simp only [reindexL, vrecActs]
    rw [vrec_reindex strat draw pass k pc (p1 * s) p2 d hn.1,
      vrec_reindex strat draw pass k pc p1 (p2 * s) d hn.1]
    simp only [vrecActs_reindex strat draw pass one i mult σ ks pc p1 p2 _ _ _ _ hn.2]
end

end eval

/-! ## positions of the kept entries -/

section nth
variable {β : Type}

/-- the position in `L` of the `i`-th entry (counting from `0`) that satisfies `p` -/
def nth (p : β → Bool) : List β → Nat → Nat
  | [], _ => 0
  | e :: L, 0 => if p e then 0 else 1 + nth p L 0
  | e :: L, i + 1 => if p e then 1 + nth p L i else 1 + nth p L (i + 1)

theorem nth_cons_neg (p : β → Bool) (e : β) (L : List β) (i : Nat) (he : p e = false) :
    nth p (e :: L) i = 1 + nth p L i := by
  cases i <;> simp [nth, he]

theorem nth_cons_zero (p : β → Bool) (e : β) (L : List β) (he : p e = true) :
    nth p (e :: L) 0 = 0 := by
  simp [nth, he]

theorem nth_cons_succ (p : β → Bool) (e : β) (L : List β) (i : Nat) (he : p e = true) :
    nth p (e :: L) (i + 1) = 1 + nth p L i := by
  simp [nth, he]

theorem nth_getElem? (p : β → Bool) : ∀ (L : List β) (i : Nat), i < (L.filter p).length →
    L[nth p L i]? = (L.filter p)[i]?
  | [], i, h => by simp at h
  | e :: L, i, h => by
    by_cases he : p e = true
    · cases i with
      | zero => simp [nth_cons_zero p e L he, he]
      | succ i =>
        simp only [List.filter_cons, he, if_true, List.length_cons] at h
        rw [nth_cons_succ p e L i he, Nat.add_comm 1, List.getElem?_cons_succ,
          nth_getElem? p L i (by omega)]
        simp [he]
    · simp only [Bool.not_eq_true] at he
      simp only [List.filter_cons, he, Bool.false_eq_true, if_false] at h ⊢
      rw [nth_cons_neg p e L i he, Nat.add_comm 1, List.getElem?_cons_succ, nth_getElem? p L i h]

theorem nth_append_lt (p : β → Bool) (M : List β) : ∀ (L : List β) (i : Nat),
    i < (L.filter p).length → nth p (L ++ M) i = nth p L i
  | [], i, h => by simp at h
  | e :: L, i, h => by
    by_cases he : p e = true
    · cases i with
      | zero => simp [nth_cons_zero p e _ he]
      | succ i =>
        simp only [List.filter_cons, he, if_true, List.length_cons] at h
        rw [List.cons_append, nth_cons_succ p e _ i he, nth_cons_succ p e _ i he,
          nth_append_lt p M L i (by omega)]
    · simp only [Bool.not_eq_true] at he
      simp only [List.filter_cons, he, Bool.false_eq_true, if_false] at h
      rw [List.cons_append, nth_cons_neg p e _ i he, nth_cons_neg p e _ i he,
        nth_append_lt p M L i h]

theorem nth_append_new (p : β → Bool) (e : β) (M : List β) (he : p e = true) : ∀ (L : List β),
    nth p (L ++ e :: M) (L.filter p).length = L.length
  | [] => by simp [nth_cons_zero p e M he]
  | x :: L => by
    by_cases hx : p x = true
    · simp only [List.filter_cons, hx, if_true, List.length_cons, List.cons_append]
      rw [nth_cons_succ p x _ _ hx, nth_append_new p e M he L]; omega
    · simp only [Bool.not_eq_true] at hx
      simp only [List.filter_cons, hx, Bool.false_eq_true, if_false, List.length_cons,
        List.cons_append]
      rw [nth_cons_neg p x _ _ hx, nth_append_new p e M he L]; omega

theorem findIdx?_nth (q p : β → Bool) (hqp : ∀ e, q e = true → p e = true) : ∀ (L : List β),
    L.findIdx? q = ((L.filter p).findIdx? q).map (nth p L)
  | [] => by simp
  | x :: L => by
    by_cases hx : p x = true
    · simp only [List.filter_cons, hx, if_true, List.findIdx?_cons]
      by_cases hq : q x = true
      · simp [hq, nth_cons_zero p x L hx]
      · simp only [hq, Bool.false_eq_true, if_false, findIdx?_nth q p hqp L, Option.map_map]
        cases (L.filter p).findIdx? q with
        | none => rfl
        | some i => simp [nth_cons_succ p x L i hx, Nat.add_comm]
    · simp only [Bool.not_eq_true] at hx
      have hq : q x = false := by
        cases h : q x with
        | false => rfl
        | true => rw [hqp x h] at hx; cases hx
      simp only [List.filter_cons, hx, Bool.false_eq_true, if_false, List.findIdx?_cons, hq,
        findIdx?_nth q p hqp L, Option.map_map]
      cases (L.filter p).findIdx? q with
      | none => rfl
      | some i => simp [nth_cons_neg p x L i hx, Nat.add_comm]

theorem find?_filter_imp (q p : β → Bool) (hqp : ∀ e, q e = true → p e = true) : ∀ (L : List β),
    (L.filter p).find? q = L.find? q
  | [] => by simp
  | x :: L => by
    by_cases hx : p x = true
    · simp only [List.filter_cons, hx, if_true, List.find?_cons, find?_filter_imp q p hqp L]
    · simp only [Bool.not_eq_true] at hx
      have hq : q x = false := by
        cases h : q x with
        | false => rfl
        | true => rw [hqp x h] at hx; cases hx
      simp only [List.filter_cons, hx, Bool.false_eq_true, if_false, List.find?_cons, hq,
        find?_filter_imp q p hqp L]

theorem lt_of_findIdx?_some {q : β → Bool} {L : List β} {i : Nat} (h : L.findIdx? q = some i) :
    i < L.length := by
  obtain ⟨hi, _⟩ := List.findIdx?_eq_some_iff_getElem.mp h
  exact hi

end nth

/-! ## the builder states of the original and of the padded tree -/

section pad
variable {fresh : Nat → Bool}

/-- the entries of the chance table that are not pads: anonymous ones and those with a name that is
not reserved for padding -/
def keep (fresh : Nat → Bool) (e : Option Nat × List α) : Bool :=
  match e.1 with
  | some l => !fresh l
  | none => true

theorem keep_of_name {l : Nat} (hl : fresh l = false) (e : Option Nat × List α)
    (he : (e.1 == some l) = true) : keep fresh e = true := by
  have : e.1 = some l := by simpa using he
  simp [keep, this, hl]

/-- `s'` is the builder state of the padded tree, `s` that of the original: the chance table of `s`
is that of `s'` without the pad entries, which all hold the degenerate distribution -/
structure Rel (fresh : Nat → Bool) (s s' : BState α) : Prop where
  chance : s.chance = s'.chance.filter (keep fresh)
  pads : ∀ e ∈ s'.chance, keep fresh e = false → e.2 = [1]
  infos : ∀ one, s'.infos one = s.infos one
  singles : ∀ one, s'.singles one = s.singles one

theorem Rel.len {s s' : BState α} (h : Rel fresh s s') :
    (s'.chance.filter (keep fresh)).length = s.chance.length := by rw [h.chance]

theorem Rel.appendKeep {s s' : BState α} (h : Rel fresh s s') (e : Option Nat × List α)
    (he : keep fresh e = true) :
    Rel fresh ({ s with chance := s.chance ++ [e] } : BState α)
      ({ s' with chance := s'.chance ++ [e] } : BState α) where
  chance := by simp [List.filter_append, he, h.chance]
  pads := by
    intro x hx hk
    simp only [List.mem_append, List.mem_singleton] at hx
    rcases hx with hx | rfl
    · exact h.pads x hx hk
    · rw [he] at hk; cases hk
  infos := by simpa using h.infos
  singles := by simpa using h.singles

theorem Rel.appendPad {s s' : BState α} (h : Rel fresh s s') (l : Nat) (hl : fresh l = true) :
    Rel fresh s ({ s' with chance := s'.chance ++ [(some l, [1])] } : BState α) where
  chance := by simp [List.filter_append, keep, hl, h.chance]
  pads := by
    intro x hx hk
    simp only [List.mem_append, List.mem_singleton] at hx
    rcases hx with hx | rfl
    · exact h.pads x hx hk
    · rfl
  infos := by simpa using h.infos
  singles := by simpa using h.singles

theorem Rel.setInfos {s s' : BState α} (h : Rel fresh s s') (one : Bool) (l : List PInfo) :
    Rel fresh (s.setInfos one l) (s'.setInfos one l) where
  chance := by simpa using h.chance
  pads := by simpa using h.pads
  infos := by intro me; simp [h.infos]
  singles := by simpa using h.singles

theorem Rel.setSingles {s s' : BState α} (h : Rel fresh s s') (one : Bool) (l : List (Nat × Nat)) :
    Rel fresh (s.setSingles one l) (s'.setSingles one l) where
  chance := by simpa using h.chance
  pads := by simpa using h.pads
  infos := by simpa using h.infos
  singles := by intro me; simp [h.singles]

/-- appending to the padded table does not move the nodes built before -/
theorem Rel.lift {s s' : BState α} (h : Rel fresh s s') (M : List (Option Nat × List α))
    (n : Node α) (hn : ChLt s.chance.length n) :
    reindex (nth (keep fresh) (s'.chance ++ M)) n = reindex (nth (keep fresh) s'.chance) n :=
  reindex_congr (fun i hi => nth_append_lt _ M _ i (by rw [h.len]; exact hi)) n hn

theorem Rel.liftL {s s' : BState α} (h : Rel fresh s s') (M : List (Option Nat × List α))
    (ns : List (Node α)) (hn : ChLtL s.chance.length ns) :
    reindexL (nth (keep fresh) (s'.chance ++ M)) ns = reindexL (nth (keep fresh) s'.chance) ns :=
  reindexL_congr (fun i hi => nth_append_lt _ M _ i (by rw [h.len]; exact hi)) ns hn

theorem Rel.len_le {s s' t t' : BState α} (h : Rel fresh s s') (h' : Rel fresh t t')
    {M : List (Option Nat × List α)} (hM : t'.chance = s'.chance ++ M) :
    s.chance.length ≤ t.chance.length := by
  rw [h.chance, h'.chance, hM, List.filter_append, List.length_append]
  omega

theorem exRel_cases {β β' : Type} {R : β → β' → Prop} {a : Except GameError β}
    {b : Except GameError β'} (h : ExRel R a b) :
    (∃ e, a = .error e ∧ b = .error e) ∨ (∃ x y, a = .ok x ∧ b = .ok y ∧ R x y) := by
  cases a <;> cases b <;> simp_all [ExRel]

/-- related results of `compile` started in the padded state `s'` -/
def NodeRes (fresh : Nat → Bool) (s' : BState α) (x y : Node α × BState α) : Prop :=
  Rel fresh x.2 y.2 ∧ (∃ M, y.2.chance = s'.chance ++ M) ∧ ChLt x.2.chance.length x.1 ∧
    y.1 = reindex (nth (keep fresh) y.2.chance) x.1
def OutRes (fresh : Nat → Bool) (s' : BState α) (x y : List α × List (Node α) × BState α) : Prop :=
  x.1 = y.1 ∧ Rel fresh x.2.2 y.2.2 ∧ (∃ M, y.2.2.chance = s'.chance ++ M) ∧
    ChLtL x.2.2.chance.length x.2.1 ∧ y.2.1 = reindexL (nth (keep fresh) y.2.2.chance) x.2.1
def ActRes (fresh : Nat → Bool) (s' : BState α) (x y : List (Node α) × BState α) : Prop :=
  Rel fresh x.2 y.2 ∧ (∃ M, y.2.chance = s'.chance ++ M) ∧ ChLtL x.2.chance.length x.1 ∧
    y.1 = reindexL (nth (keep fresh) y.2.chance) x.1

theorem res_same {s s' : BState α} (h : Rel fresh s s') (n : Node α)
    (hn : ChLt s.chance.length n) :
    NodeRes fresh s' (n, s) (reindex (nth (keep fresh) s'.chance) n, s') :=
  ⟨h, ⟨[], by simp⟩, hn, rfl⟩

theorem res_single_new {s s' : BState α} (h : Rel fresh s s') (e : Option Nat × List α)
    (he : keep fresh e = true) (n : Node α) (hn : ChLt s.chance.length n) :
    NodeRes fresh s' (n, ({ s with chance := s.chance ++ [e] } : BState α))
      (reindex (nth (keep fresh) s'.chance) n, ({ s' with chance := s'.chance ++ [e] } : BState α)) :=
  ⟨h.appendKeep e he, ⟨[e], rfl⟩, ChLt.mono (by simp) n hn, (h.lift [e] n hn).symm⟩

theorem res_new {s s' : BState α} (h : Rel fresh s s') (e : Option Nat × List α)
    (he : keep fresh e = true) (kids : List (Node α)) (hk : ChLtL s.chance.length kids) :
    NodeRes fresh s' (.chance s.chance.length kids, ({ s with chance := s.chance ++ [e] } : BState α))
      (.chance s'.chance.length (reindexL (nth (keep fresh) s'.chance) kids),
        ({ s' with chance := s'.chance ++ [e] } : BState α)) := by
  refine ⟨h.appendKeep e he, ⟨[e], rfl⟩, ?_, ?_⟩
  · simp only [ChLt, List.length_append, List.length_singleton]
    exact ⟨by omega, ChLtL.mono (by omega) kids hk⟩
  · simp only [reindex]
    rw [h.liftL [e] kids hk, ← h.len, nth_append_new _ e [] he]

theorem registerChance_cn (info : Option Nat) (hinfo : ∀ l, info = some l → fresh l = false)
    (probs : List α) (kids : List (Node α)) {s s' : BState α} (h : Rel fresh s s')
    (hk : ChLtL s.chance.length kids) :
    ExRel (NodeRes fresh s') (registerChance info probs kids s)
      (registerChance info probs (reindexL (nth (keep fresh) s'.chance) kids) s') := by
  match kids, info, hk, hinfo with
  | [], _, _, _ => simp [registerChance, reindexL]
  | [k], none, hk, _ =>
    simp only [ChLtL] at hk
    simp only [registerChance, reindexL, ExRel_ok]
    exact res_same h k hk.1
  | [k], some l, hk, hinfo =>
    have hl := hinfo l rfl
    simp only [ChLtL] at hk
    simp only [registerChance, reindexL]
    rw [h.chance, find?_filter_imp _ _ (keep_of_name hl)]
    cases hf : s'.chance.find? (fun e => e.1 == some l) with
    | some e =>
      simp only
      split_ifs
      · simp only [ExRel_ok]; exact res_same h k hk.1
      · simp
    | none =>
      simp only [ExRel_ok]
      rw [← h.chance]
      exact res_single_new h _ (by simp [keep, hl]) k hk.1
  | k1 :: k2 :: ks, none, hk, _ =>
    simp only [registerChance, reindexL, ExRel_ok]
    exact res_new h _ (by simp [keep]) _ hk
  | k1 :: k2 :: ks, some l, hk, hinfo =>
    have hl := hinfo l rfl
    simp only [registerChance, reindexL]
    rw [findIdx?_nth _ _ (keep_of_name hl) s'.chance, ← h.chance]
    cases hf : s.chance.findIdx? (fun e => e.1 == some l) with
    | some i =>
      have hi := lt_of_findIdx?_some hf
      simp only [Option.map_some]
      rw [nth_getElem? _ _ i (by rw [h.len]; exact hi), ← h.chance]
      split_ifs
      · simp only [ExRel_ok]
        exact res_same h (.chance i (k1 :: k2 :: ks)) (by simp only [ChLt]; exact ⟨hi, hk⟩)
      · simp
    | none =>
      simp only [Option.map_none, ExRel_ok]
      exact res_new h _ (by simp [keep, hl]) _ hk

/-- a pad registers its name with the degenerate distribution, once -/
theorem registerChance_padname (l : Nat) (hl : fresh l = true) (ps : List α) (n' : Node α)
    {s s' : BState α} (h : Rel fresh s s') :
    ∃ t' M, registerChance (some l) ps [n'] s' = .ok (n', t') ∧ Rel fresh s t' ∧
      t'.chance = s'.chance ++ M := by
  simp only [registerChance]
  cases hf : s'.chance.find? (fun e => e.1 == some l) with
  | some e =>
    have he1 : e.1 = some l := by simpa using List.find?_some hf
    have hem := List.mem_of_find?_eq_some hf
    have : e.2 = [1] := h.pads e hem (by simp [keep, he1, hl])
    simp only [this, beq_self_eq_true, if_true]
    exact ⟨s', [], rfl, h, by simp⟩
  | none => exact ⟨_, [(some l, [1])], rfl, h.appendPad l hl, rfl⟩

theorem registerSingle_cn (one : Bool) (info a : Nat) {s s' : BState α} (h : Rel fresh s s') :
    ExRel (fun t t' => Rel fresh t t' ∧ t'.chance = s'.chance)
      (registerSingle one info a s) (registerSingle one info a s') := by
  unfold registerSingle
  rw [h.infos, h.singles]
  split_ifs
  · simp
  · split
    · split_ifs <;> simp [h]
    · simp only [ExRel_ok]
      exact ⟨h.setSingles one _, by simp⟩

theorem registerPlayer_cn (one : Bool) (info : Nat) (acts : List Nat) (prev : Prev)
    {s s' : BState α} (h : Rel fresh s s') :
    ExRel (fun x y => x.1 = y.1 ∧ Rel fresh x.2 y.2 ∧ y.2.chance = s'.chance)
      (registerPlayer one info acts prev s) (registerPlayer one info acts prev s') := by
  unfold registerPlayer
  rw [h.infos, h.singles]
  split
  · split
    · split_ifs <;> simp [h]
    · simp
  · split_ifs
    · simp
    · simp only [ExRel_ok, true_and]
      exact ⟨h.setInfos one _, by simp⟩
    · simp

/-- the statement for one pair of trees -/
def POK (fresh : Nat → Bool) (r r' : Raw α) : Prop :=
  ∀ (prev : Prev) (s s' : BState α), Rel fresh s s' →
    ExRel (NodeRes fresh s') (compile r prev s) (compile r' prev s')

theorem compileOutcomes_cn {ks ks' : List (Raw α)} (h : AllRel (POK fresh) ks ks') :
    ∀ (ws : List α) (prev : Prev) (s s' : BState α), Rel fresh s s' →
    ExRel (OutRes fresh s') (compileOutcomes ws ks prev s) (compileOutcomes ws ks' prev s') := by
  induction h with
  | nil =>
    intro ws prev s s' hrel
    cases ws <;> simp [compileOutcomes, OutRes, hrel, ChLtL, reindexL]
  | cons k k' ks ks' hk hks ih =>
    intro ws prev s s' hrel
    cases ws with
    | nil => simp [compileOutcomes, OutRes, hrel, ChLtL, reindexL]
    | cons w ws =>
      simp only [compileOutcomes]
      split_ifs
      · rcases exRel_cases (hk prev s s' hrel) with ⟨e, ha, hb⟩ | ⟨⟨n, t⟩, ⟨n', t'⟩, ha, hb, hR⟩
        · simp [ha, hb]
        · obtain ⟨ht, ⟨M, hM⟩, hn, hn'⟩ := hR
          simp only at ht hM hn hn'
          simp only [ha, hb]
          rcases exRel_cases (ih ws prev t t' ht) with ⟨e, ha2, hb2⟩ | ⟨⟨ps, ns, u⟩, ⟨ps', ns', u'⟩, ha2, hb2, hR2⟩
          · simp [ha2, hb2]
          · obtain ⟨hps, hu, ⟨M2, hM2⟩, hns, hns'⟩ := hR2
            simp only at hps hu hM2 hns hns'
            simp only [ha2, hb2, ExRel_ok]
            refine ⟨by rw [hps], hu, ⟨M ++ M2, by rw [hM2, hM, List.append_assoc]⟩, ?_, ?_⟩
            · simp only [ChLtL]
              exact ⟨ChLt.mono (ht.len_le hu hM2) n hn, hns⟩
            · simp only [reindexL]
              rw [hn', hns', hM2, ht.lift M2 n hn]
      · simp

theorem compileActions_cn {ks ks' : List (Raw α)} (h : AllRel (POK fresh) ks ks') :
    ∀ (one : Bool) (i a : Nat) (prev : Prev) (s s' : BState α), Rel fresh s s' →
    ExRel (ActRes fresh s') (compileActions ks one i a prev s)
      (compileActions ks' one i a prev s') := by
  induction h with
  | nil =>
    intro one i a prev s s' hrel
    simp [compileActions, ActRes, hrel, ChLtL, reindexL]
  | cons k k' ks ks' hk hks ih =>
    intro one i a prev s s' hrel
    simp only [compileActions]
    rcases exRel_cases (hk (prev.set one (some (i, a))) s s' hrel) with
      ⟨e, ha, hb⟩ | ⟨⟨n, t⟩, ⟨n', t'⟩, ha, hb, hR⟩
    · simp [ha, hb]
    · obtain ⟨ht, ⟨M, hM⟩, hn, hn'⟩ := hR
      simp only at ht hM hn hn'
      simp only [ha, hb]
      rcases exRel_cases (ih one i (a + 1) prev t t' ht) with
        ⟨e, ha2, hb2⟩ | ⟨⟨ns, u⟩, ⟨ns', u'⟩, ha2, hb2, hR2⟩
      · simp [ha2, hb2]
      · obtain ⟨hu, ⟨M2, hM2⟩, hns, hns'⟩ := hR2
        simp only at hu hM2 hns hns'
        simp only [ha2, hb2, ExRel_ok]
        refine ⟨hu, ⟨M ++ M2, by rw [hM2, hM, List.append_assoc]⟩, ?_, ?_⟩
        · simp only [ChLtL]
          exact ⟨ChLt.mono (ht.len_le hu hM2) n hn, hns⟩
        · simp only [reindexL]
          rw [hn', hns', hM2, ht.lift M2 n hn]

theorem pOK_term (p : α) : POK fresh (.term p) (.term p) := by
  intro prev s s' hrel
  simp only [compile]
  split_ifs
  · simp only [ExRel_ok]
    exact res_same hrel (.term p) (by simp [ChLt])
  · simp

theorem pOK_chance (i : Option Nat) (hi : ∀ l, i = some l → fresh l = false) (ws : List α)
    {ks ks' : List (Raw α)} (hl : AllRel (POK fresh) ks ks') :
    POK fresh (.chance i ws ks) (.chance i ws ks') := by
  intro prev s s' hrel
  simp only [compile]
  rcases exRel_cases (compileOutcomes_cn hl ws prev s s' hrel) with
    ⟨e, ha, hb⟩ | ⟨⟨ps, ns, t⟩, ⟨ps', ns', t'⟩, ha, hb, hR⟩
  · simp [ha, hb]
  · obtain ⟨hps, ht, ⟨M, hM⟩, hns, hns'⟩ := hR
    simp only at hps ht hM hns hns'
    subst hps
    simp only [ha, hb, hns']
    rcases exRel_cases (registerChance_cn i hi ps ns ht hns) with
      ⟨e, ha2, hb2⟩ | ⟨⟨n, u⟩, ⟨n', u'⟩, ha2, hb2, hR2⟩
    · simp [ha2, hb2]
    · obtain ⟨hu, ⟨M2, hM2⟩, hn, hn'⟩ := hR2
      simp only [ha2, hb2, ExRel_ok]
      exact ⟨hu, ⟨M ++ M2, by rw [hM2, hM, List.append_assoc]⟩, hn, hn'⟩

theorem pOK_pad {r k' : Raw α} (l : Nat) (w : α) (hl : fresh l = true) (hw : 0 < w)
    (ih : POK fresh r k') : POK fresh r (.chance (some l) [w] [k']) := by
  intro prev s s' hrel
  simp only [compile, compileOutcomes, hw, isFinite_exact, decide_true, Bool.and_self, if_true]
  rcases exRel_cases (ih prev s s' hrel) with ⟨e, ha, hb⟩ | ⟨⟨n, t⟩, ⟨n', t'⟩, ha, hb, hR⟩
  · simp [ha, hb]
  · obtain ⟨ht, ⟨M, hM⟩, hn, hn'⟩ := hR
    simp only at ht hM hn hn'
    obtain ⟨t'', M2, hreg, ht'', hM2⟩ := registerChance_padname l hl [w] n' ht
    simp only [ha, hb, hreg, ExRel_ok]
    refine ⟨ht'', ⟨M ++ M2, by rw [hM2, hM, List.append_assoc]⟩, hn, ?_⟩
    simp only
    rw [hn', hM2, ht.lift M2 n hn]

theorem pOK_player (o : Bool) (i : Nat) (as : List Nat) {ks ks' : List (Raw α)}
    (hl : AllRel (POK fresh) ks ks') :
    POK fresh (.player o i as ks) (.player o i as ks') := by
  intro prev s s' hrel
  match as, ks, ks', hl with
  | [], _, _, _ => simp [compile]
  | [a], _, _, .nil => simp [compile]
  | [a], _, _, .cons k k' ks ks' hk hks =>
    simp only [compile]
    rcases exRel_cases (registerSingle_cn o i a hrel) with ⟨e, ha, hb⟩ | ⟨t, t', ha, hb, ht, hc⟩
    · simp [ha, hb]
    · simp only [ha, hb]
      rcases exRel_cases (hk prev t t' ht) with ⟨e, ha2, hb2⟩ | ⟨x, y, ha2, hb2, hR⟩
      · simp [ha2, hb2]
      · simp only [ha2, hb2, ExRel_ok]
        obtain ⟨hu, ⟨M, hM⟩, hn, hn'⟩ := hR
        exact ⟨hu, ⟨M, by rw [hM, hc]⟩, hn, hn'⟩
  | a :: b :: as, _, _, .nil => simp [compile]
  | a :: b :: as, _, _, .cons k k' ks ks' hk hks =>
    simp only [compile]
    rcases exRel_cases (registerPlayer_cn o i (a :: b :: as) prev hrel) with
      ⟨e, ha, hb⟩ | ⟨⟨j, t⟩, ⟨j', t'⟩, ha, hb, hj, ht, hc⟩
    · simp [ha, hb]
    · simp only at hj ht hc
      subst hj
      simp only [ha, hb]
      rcases exRel_cases (compileActions_cn (.cons k k' ks ks' hk hks) o j 0 prev t t' ht) with
        ⟨e, ha2, hb2⟩ | ⟨⟨ns, u⟩, ⟨ns', u'⟩, ha2, hb2, hR⟩
      · simp [ha2, hb2]
      · simp only [ha2, hb2, ExRel_ok]
        obtain ⟨hu, ⟨M, hM⟩, hn, hn'⟩ := hR
        simp only at hu hM hn hn'
        refine ⟨hu, ⟨M, by rw [hM, hc]⟩, ?_, ?_⟩
        · simpa only [ChLt] using hn
        · simp only [reindex, hn']

end pad

end Cfr.CN
