import CfrVerif.Props.C03
import CfrVerif.Props.C02
/-!
# C03, continued: the true regret of the vanilla solve obeys the rate and tends to zero
(to be appended to `Props/C03.lean` once proved)
-/
set_option linter.unusedSectionVars false
namespace Cfr

/-! ## the true regret -/

/-- **the true regret of the returned profile obeys the CFR rate** (the bound dominates it by
C02): after `T` iterations without early termination it is at most `2·D·N·√A/√T`, `N` the number
of decision infosets of both players -/
theorem full_vanilla_regret_rate (g : Game ℝ) (hg : GameWF g) (lo hi : ℝ) (hD : lo ≤ hi)
    (hpay : PayIn lo hi g.root) (A : Nat) (hA : ActsLe g A) (draw : DrawFn ℝ) (T : Nat) (hT : 0 < T) :
    (getInfo g (solveVanillaSingle g false RegretParams.vanilla draw T none).profile).regret
      ≤ 2 * (hi - lo) * ((g.p1.length + g.p2.length : Nat) : ℝ) * Real.sqrt A / Real.sqrt T := by
  sorry

/-- **in particular the regret tends to zero as the budget grows**, on every game -/
theorem full_vanilla_regret_tendsto_zero (g : Game ℝ) (hg : GameWF g) (lo hi : ℝ) (hD : lo ≤ hi)
    (hpay : PayIn lo hi g.root) (A : Nat) (hA : ActsLe g A) (draw : DrawFn ℝ) :
    ∀ ε : ℝ, 0 < ε → ∃ T0 : Nat, ∀ T : Nat, T0 ≤ T →
      (getInfo g (solveVanillaSingle g false RegretParams.vanilla draw T none).profile).regret ≤ ε := by
  sorry

/-- the second sentence of the property for the vanilla preset: the envelope
`6·D·N·(√A + 1/√T)/√T` holds (it is weaker than the rate above); for the discounted presets it is
not proved here -/
theorem full_preset_rate_partial (g : Game ℝ) (hg : GameWF g) (lo hi : ℝ) (hD : lo ≤ hi)
    (hpay : PayIn lo hi g.root) (A : Nat) (hA : ActsLe g A) (draw : DrawFn ℝ) (T : Nat) (hT : 0 < T) :
    (getInfo g (solveVanillaSingle g false RegretParams.vanilla draw T none).profile).regret
      ≤ 6 * (hi - lo) * ((g.p1.length + g.p2.length : Nat) : ℝ)
          * (Real.sqrt A + 1 / Real.sqrt T) / Real.sqrt T := by
  sorry

end Cfr
