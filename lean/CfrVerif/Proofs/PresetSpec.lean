import CfrVerif.Proofs.VanillaBound
import CfrVerif.Proofs.RateSolve
/-!
# Interface between the game-level and the scalar part of the discounted-preset analysis (C03)

`RMTrace p n D T` records what regret matching with the discount parameters `p` does at ONE
infoset with `n` actions during `T` iterations of the unsampled solver: the instantaneous
counterfactual regret vectors `r t` (`1 ≤ t ≤ T`), and the cumulative regrets `Q t` the solver
stores after iteration `t` (discounted).  `weightedRegret` is the `t^γ`-weighted sum of the
instantaneous regrets of one action, `weightTotal` the sum of the weights — the weights with which
iteration `t` enters the returned average strategy.
-/
set_option linter.unusedSectionVars false
namespace Cfr

/-- entrywise sum of two vectors -/
def vadd (x y : List ℝ) : List ℝ := List.zipWith (· + ·) x y

structure RMTrace (p : RegretParams ℝ) (n : Nat) (D : ℝ) (T : Nat) where
  /-- instantaneous regrets of iteration `t` -/
  r : Nat → List ℝ
  /-- stored (discounted) cumulative regrets after iteration `t`; `Q 0 = 0` -/
  Q : Nat → List ℝ
  hr : ∀ t, (r t).length = n
  hQ : ∀ t, (Q t).length = n
  hQ0 : Q 0 = List.replicate n 0
  /-- add the new regrets, then discount positive and negative entries (`discount_cum_regret`) -/
  hstep : ∀ t, 1 ≤ t → t ≤ T → Q t = discountCumRegret p t (vadd (Q (t - 1)) (r t))
  /-- every instantaneous regret is bounded by the payoff range -/
  hbnd : ∀ t, 1 ≤ t → t ≤ T → ∀ x ∈ r t, |x| ≤ D
  /-- the new regrets are orthogonal to the positive part of the stored regrets (the strategy of
  iteration `t` is proportional to it whenever it is non-zero) -/
  horth : ∀ t, 1 ≤ t → t ≤ T → dot ((Q (t - 1)).map (fun x => max x 0)) (r t) = 0

/-- `Σ_{t=1}^{T} t^γ · r_t(a)` -/
noncomputable def RMTrace.weightedRegret {p : RegretParams ℝ} {n : Nat} {D : ℝ} {T : Nat}
    (tr : RMTrace p n D T) (a : Nat) : ℝ :=
  ((List.range T).map (fun t => ((t + 1 : Nat) : ℝ) ^ p.strat * (tr.r (t + 1)).getD a 0)).sum

/-- `Σ_{t=1}^{T} t^γ` -/
noncomputable def weightTotal (γ : ℝ) (T : Nat) : ℝ :=
  ((List.range T).map (fun t => ((t + 1 : Nat) : ℝ) ^ γ)).sum

/-- the clamped maximum over the actions of the weighted regret of an infoset -/
noncomputable def RMTrace.clampedMax {p : RegretParams ℝ} {n : Nat} {D : ℝ} {T : Nat}
    (tr : RMTrace p n D T) : ℝ :=
  fmax (maxD 0 ((List.range n).map tr.weightedRegret)) 0

end Cfr
